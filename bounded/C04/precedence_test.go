package types

// Bounded stand-in for C04 (path precedence in the generated maps), run on the
// real HostsMap code by /verif/govc (go test -overlay).  NOT a proof.
//
// rebuildMatchFiles / findOrCreateMatchFileIfOverlaps work on container/list
// and are outside the verifier's reach; this check enumerates a finite space
// completely and compares, for every request, the rule selected by looking the
// request up in the emitted files (HAProxy's str / dir / beg semantics, first
// hit wins, files in emitted order) with the rule C04 designates: an exact rule
// equal to the path, otherwise a matching rule with the longest declared path.
//
// Space: (A) every set of 1..3 rules over hosts {h1,h2} x paths
// {/, /a, /a/b, /ab, /A, /a/B} x types {exact,prefix,begin}; (B) every set of
// 1..4 rules over host h1 and the paths of (A) plus /a/b/c and /A/b; the six
// orders of (exact,prefix,begin) followed by regex; requests: both hosts x 15
// paths.  Rule sets that declare one path of one host with two different
// non-exact types are skipped (no rule is documented for them).
// VERIF_BOUND_SCALE>=3 (thorough tier) adds (C): (B) over both hosts.
//
// The lookup model (match_dir with '/' '?' delimiters, longest match for beg)
// is trusted.

import (
	"fmt"
	"os"
	"strconv"
	"strings"
	"testing"
)

func bIsDelim(c byte) bool { return c == '/' || c == '?' }

// HAProxy pat_match_dir: the pattern, stripped of leading/trailing delimiters,
// must appear in the sample between delimiters (or the ends)
func bMatchDir(sample, pattern string) bool {
	for len(pattern) > 0 && bIsDelim(pattern[0]) {
		pattern = pattern[1:]
	}
	for len(pattern) > 0 && bIsDelim(pattern[len(pattern)-1]) {
		pattern = pattern[:len(pattern)-1]
	}
	pl := len(pattern)
	if pl > len(sample) {
		return false
	}
	mayMatch := true
	end := len(sample) - pl
	for c := 0; c <= end; c++ {
		if bIsDelim(sample[c]) {
			mayMatch = true
			continue
		}
		if !mayMatch {
			continue
		}
		if sample[c:c+pl] == pattern && (c == end || bIsDelim(sample[c+pl])) {
			return true
		}
		mayMatch = false
	}
	return false
}

func bLookup(files []*MatchFile, host, path string) (string, bool) {
	for _, f := range files {
		if f.Headers() != nil {
			continue
		}
		sample := host + "#" + path
		if f.Lower() {
			sample = strings.ToLower(sample)
		}
		switch f.Method() {
		case "str":
			for _, e := range f.Values() {
				if e.Key == sample {
					return e.Value, true
				}
			}
		case "dir":
			for _, e := range f.Values() {
				if bMatchDir(sample, e.Key) {
					return e.Value, true
				}
			}
		case "beg":
			var best *HostsMapEntry
			for _, e := range f.Values() {
				if strings.HasPrefix(sample, e.Key) && (best == nil || len(e.Key) > len(best.Key)) {
					best = e
				}
			}
			if best != nil {
				return best.Value, true
			}
		}
	}
	return "", false
}

type bRule struct {
	host, path string
	match      MatchType
}

func (r bRule) id() string { return fmt.Sprintf("%s|%s|%s", r.host, r.path, r.match) }

func bRuleMatches(r bRule, host, path string) bool {
	if r.host != host {
		return false
	}
	switch r.match {
	case MatchExact:
		return r.path == path
	case MatchPrefix:
		p := strings.TrimSuffix(r.path, "/")
		return path == p || strings.HasPrefix(path, p+"/")
	case MatchBegin:
		return strings.HasPrefix(strings.ToLower(path), strings.ToLower(r.path))
	}
	return false
}

func bExpected(rules []bRule, host, path string) map[string]bool {
	res := map[string]bool{}
	for _, r := range rules {
		if r.match == MatchExact && bRuleMatches(r, host, path) {
			res[r.id()] = true
			return res
		}
	}
	best := -1
	for _, r := range rules {
		if r.match != MatchExact && bRuleMatches(r, host, path) && len(r.path) > best {
			best = len(r.path)
		}
	}
	for _, r := range rules {
		if r.match != MatchExact && bRuleMatches(r, host, path) && len(r.path) == best {
			res[r.id()] = true
		}
	}
	return res
}

func bUndocumented(rules []bRule) bool {
	for i := range rules {
		for j := range rules {
			if i < j && rules[i].host == rules[j].host && rules[i].path == rules[j].path &&
				rules[i].match != rules[j].match && rules[i].match != MatchExact && rules[j].match != MatchExact {
				return true
			}
		}
	}
	return false
}

type bSpace struct {
	hosts    []string
	paths    []string
	maxRules int
}

func TestBoundedC04Precedence(t *testing.T) {
	scale, _ := strconv.Atoi(os.Getenv("VERIF_BOUND_SCALE"))
	base := []string{"/", "/a", "/a/b", "/ab", "/A", "/a/B"}
	more := append(append([]string{}, base...), "/a/b/c", "/A/b")
	spaces := []bSpace{
		{[]string{"h1", "h2"}, base, 3},
		{[]string{"h1"}, more, 4},
	}
	if scale >= 3 {
		spaces = append(spaces, bSpace{[]string{"h1", "h2"}, more, 4})
	}
	types := []MatchType{MatchExact, MatchPrefix, MatchBegin}
	reqs := []string{"/", "/a", "/a/", "/a/b", "/a/b/", "/a/bc", "/a/b/c", "/a/b/cd", "/a/B", "/a/B/c", "/ab", "/A", "/A/b", "/A/B/x", "/x"}
	orders := [][]MatchType{
		{MatchExact, MatchPrefix, MatchBegin, MatchRegex}, {MatchExact, MatchBegin, MatchPrefix, MatchRegex},
		{MatchPrefix, MatchExact, MatchBegin, MatchRegex}, {MatchPrefix, MatchBegin, MatchExact, MatchRegex},
		{MatchBegin, MatchExact, MatchPrefix, MatchRegex}, {MatchBegin, MatchPrefix, MatchExact, MatchRegex},
	}
	cases := 0
	fail := ""
	check := func(rules []bRule) {
		if bUndocumented(rules) {
			return
		}
		for _, o := range orders {
			hm := CreateMaps(o).AddMap("hosts.map")
			for _, r := range rules {
				hm.AddHostnamePathMapping(r.host, &HostPath{Link: CreatePathLink(r.path, r.match)}, r.id())
			}
			files := hm.MatchFiles()
			for _, h := range []string{"h1", "h2"} {
				for _, q := range reqs {
					cases++
					exp := bExpected(rules, h, q)
					got, found := bLookup(files, h, q)
					bad := (len(exp) == 0 && found) || (len(exp) > 0 && (!found || !exp[got]))
					if bad && fail == "" {
						fail = fmt.Sprintf("order=%v rules=%v request=%s%s: designated %v, selected %q (found=%t)", o, rules, h, q, exp, got, found)
					}
				}
			}
		}
	}
	for _, sp := range spaces {
		var all []bRule
		for _, h := range sp.hosts {
			for _, p := range sp.paths {
				for _, m := range types {
					all = append(all, bRule{h, p, m})
				}
			}
		}
		var rec func(start int, cur []bRule)
		rec = func(start int, cur []bRule) {
			if len(cur) > 0 {
				check(cur)
			}
			if len(cur) == sp.maxRules {
				return
			}
			for i := start; i < len(all); i++ {
				rec(i+1, append(append([]bRule{}, cur...), all[i]))
			}
		}
		rec(0, nil)
	}
	fmt.Printf("BOUNDED-CASES %d\n", cases)
	if fail != "" {
		fmt.Printf("BOUNDED-FAIL %s\n", fail)
		t.Fail()
	}
}
