package workqueue

// Bounded stand-in for C13, run on the real code by /verif/govc (go test
// -overlay).  NOT a proof.  The time frame of the reconciliation limiter is
// computed with float64 arithmetic (1/rate), which the verifier does not
// interpret; the contracts of When() are proved for every delta, this check
// ties delta to the configured rate: for every --rate-limit-update in
// 0.05, 0.10, ... 10.00 (200 values, the accepted range) the frame is 1/rate
// seconds within a microsecond, and the wait is the configured wait.

import (
	"fmt"
	"math/big"
	"testing"
	"time"
)

func TestBoundedC13Frame(t *testing.T) {
	cases := 0
	fail := ""
	for i := 1; i <= 200; i++ {
		rate := float64(i) * 0.05
		for _, wait := range []time.Duration{0, 200 * time.Millisecond, 2 * time.Second} {
			cases++
			rl := IngressReconcilerRateLimiter[int](rate, wait).(*ingressReconciler[int])
			// expected frame in nanoseconds: 1e9 * 20 / i, exact rational
			exp := new(big.Rat).SetFrac64(20_000_000_000, int64(i))
			got := new(big.Rat).SetInt64(int64(rl.delta))
			diff := new(big.Rat).Sub(exp, got)
			diff.Abs(diff)
			if diff.Cmp(big.NewRat(1000, 1)) > 0 || rl.wait != wait {
				if fail == "" {
					fail = fmt.Sprintf("rate=%.2f wait=%s: frame %s (expected 1/rate = %s ns), wait %s", rate, wait, rl.delta, exp.FloatString(0), rl.wait)
				}
			}
		}
	}
	fmt.Printf("BOUNDED-CASES %d\n", cases)
	if fail != "" {
		fmt.Printf("BOUNDED-FAIL %s\n", fail)
		t.Fail()
	}
}
