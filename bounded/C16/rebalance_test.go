package utils

// Bounded stand-in for the floating-point part of RebalanceWeight (C16), run
// on the real function by /verif/govc (go test -overlay).  NOT a proof: the
// input space below is enumerated completely, nothing is claimed outside it.
//
// Space (scale 1): 1..3 groups, configured weights 0..20 plus {50,100,128,255,256},
// replicas 0..6, initial-weight in {1,2,3,10,64,100,128,255,256}.
// VERIF_BOUND_SCALE=k multiplies the weight range and replica range by k.

import (
	"fmt"
	"os"
	"strconv"
	"testing"
)

func boundedSpace() (weights, lengths, initials []int) {
	scale, _ := strconv.Atoi(os.Getenv("VERIF_BOUND_SCALE"))
	if scale < 1 {
		scale = 1
	}
	for w := 0; w <= 20*scale; w++ {
		weights = append(weights, w)
	}
	weights = append(weights, 50, 100, 128, 255, 256)
	for l := 0; l <= 6*scale; l++ {
		lengths = append(lengths, l)
	}
	initials = []int{1, 2, 3, 10, 64, 100, 128, 255, 256}
	return
}

type boundedCase struct {
	w, l    []int
	initial int
}

func boundedEnumerate(f func(c boundedCase, out []int) string) (cases int, fail string) {
	weights, lengths, initials := boundedSpace()
	// groups of 1..3; for 3 groups the weight/replica ranges are thinned to keep the run short
	for n := 1; n <= 3; n++ {
		ws, ls := weights, lengths
		if n == 3 {
			ws = nil
			for i, w := range weights {
				if i%3 == 0 || w >= 50 {
					ws = append(ws, w)
				}
			}
			ls = nil
			for _, l := range lengths {
				if l <= 3 || l%2 == 1 {
					ls = append(ls, l)
				}
			}
		}
		idx := make([]int, 2*n)
		for {
			c := boundedCase{w: make([]int, n), l: make([]int, n)}
			for i := 0; i < n; i++ {
				c.w[i] = ws[idx[2*i]]
				c.l[i] = ls[idx[2*i+1]]
			}
			for _, ini := range initials {
				c.initial = ini
				cl := make([]*WeightCluster, n)
				for i := range cl {
					cl[i] = &WeightCluster{Weight: c.w[i], Length: c.l[i]}
				}
				RebalanceWeight(cl, ini)
				out := make([]int, n)
				for i := range cl {
					out[i] = cl[i].Weight
				}
				cases++
				if msg := f(c, out); msg != "" && fail == "" {
					fail = fmt.Sprintf("%s: weights=%v replicas=%v initial-weight=%d => %v", msg, c.w, c.l, ini, out)
				}
			}
			// next index vector
			k := 0
			for k < 2*n {
				lim := len(ws)
				if k%2 == 1 {
					lim = len(ls)
				}
				idx[k]++
				if idx[k] < lim {
					break
				}
				idx[k] = 0
				k++
			}
			if k == 2*n {
				break
			}
		}
	}
	return
}

func boundedReport(t *testing.T, cases int, fail string) {
	fmt.Printf("BOUNDED-CASES %d\n", cases)
	if fail != "" {
		fmt.Printf("BOUNDED-FAIL %s\n", fail)
		t.Fail()
	}
}

// every weight written for a group that has servers is an integer in 0..256
func TestBoundedC16Range(t *testing.T) {
	cases, fail := boundedEnumerate(func(c boundedCase, out []int) string {
		for i := range out {
			if c.l[i] > 0 && (out[i] < 0 || out[i] > 256) {
				return "weight outside 0..256"
			}
		}
		return ""
	})
	boundedReport(t, cases, fail)
}

// the weight of a group that has servers is zero exactly when its configured weight is zero
func TestBoundedC16ZeroIff(t *testing.T) {
	cases, fail := boundedEnumerate(func(c boundedCase, out []int) string {
		for i := range out {
			if c.l[i] > 0 && (out[i] == 0) != (c.w[i] == 0) {
				return "zero weight does not follow the configured weight"
			}
		}
		return ""
	})
	boundedReport(t, cases, fail)
}

// the order of the groups' shares (weight x replicas) follows the configured
// weights up to integer rounding: a server weight is truncated by less than one
// (or lifted from 0 to 1), so a group's share moves by at most its replica count
func TestBoundedC16Order(t *testing.T) {
	cases, fail := boundedEnumerate(func(c boundedCase, out []int) string {
		for i := range out {
			for j := range out {
				// configured shares: w[i] versus w[j] (shares are per group, whatever the replicas)
				if c.l[i] > 0 && c.l[j] > 0 && c.w[i] > c.w[j] && out[i]*c.l[i]+c.l[i]+c.l[j] < out[j]*c.l[j] {
					return "share order inverted beyond integer rounding"
				}
			}
		}
		return ""
	})
	boundedReport(t, cases, fail)
}
