package ingress

// Replay driver for (*converter).syncIngressHTTP (property C15), injected with
// go test -overlay.  The documented --default-ssl-certificate=file:///... (and
// any file:// TLS reference) makes the real cache return a CrtFile without a
// parsed certificate (pkg/controller/services/cache.go, proto "file":
// Filename and SHA1Hash "-" only).  With such a default certificate, an
// Ingress whose tls entry has no secretName must fall back to the default
// certificate; the converter instead dereferences the nil certificate.

import (
	"fmt"
	"os"
	"testing"

	convtypes "github.com/jcmoraisjr/haproxy-ingress/pkg/converters/types"
)

func TestVerifReplay(t *testing.T) {
	fmt.Println("obligation:", os.Getenv("VERIF_OBLIGATION"))
	c := setup(t)
	defer func() {
		c.logger.Logging = nil
		c.teardown()
	}()
	c.createSvc1Auto()
	c.cache.SecretTLSPath["system/default"] = "/tls/tls-default.pem"
	c.cache.Changed.GlobalConfigMapDataNew = map[string]string{}
	conv := c.createConverter()
	conv.updater = c.updater
	// what the real cache returns for file:///etc/ssl/default.pem
	conv.defaultCrt = convtypes.CrtFile{Filename: "/etc/ssl/default.pem", SHA1Hash: "-"}
	ing := c.createIngTLS1("default/echo", "echo.example.com", "/", "echo:8080", "")
	ing.Spec.TLS[0].SecretName = ""
	c.cache.IngList = append(c.cache.IngList, ing)
	func() {
		defer func() {
			if r := recover(); r != nil {
				fmt.Println("REPLAY-CONFIRMED: the converter panics instead of using the default certificate:", r)
				t.Fail()
			}
		}()
		conv.Sync(true)
		h := c.hconfig.Hosts().FindHost("echo.example.com")
		if h != nil {
			fmt.Println("host uses", h.TLS.TLSFilename)
		}
	}()
}
