package haproxy

// Replay driver for (*instance).HAProxyUpdate (property C12), injected with
// go test -overlay.  History: a successful update; a second update that adds a
// host while the frontend map file cannot be written (transient failure, the
// update returns an error); the failure goes away and the update is retried
// with no further change to the model.  The property demands that the retry
// brings the files on disk to the current state: the map must list the new
// host.

import (
	"fmt"
	"os"
	"path/filepath"
	"strings"
	"testing"

	hatypes "github.com/jcmoraisjr/haproxy-ingress/pkg/haproxy/types"
	"github.com/jcmoraisjr/haproxy-ingress/pkg/utils"
)

func TestVerifReplay(t *testing.T) {
	fmt.Println("obligation:", os.Getenv("VERIF_OBLIGATION"))
	c := setup(t)
	defer os.RemoveAll(c.tempdir)
	b := c.config.Backends().AcquireBackend("d1", "app", "8080")
	b.Endpoints = []*hatypes.Endpoint{endpointS1}
	h := c.config.Hosts().AcquireHost("d1.local")
	h.AddPath(b, "/", hatypes.MatchBegin)
	if err := c.instance.HAProxyUpdate(utils.NewTimer(nil)); err != nil {
		t.Fatalf("first update failed: %v", err)
	}
	mapFile := filepath.Join(c.tempdir, "_front_http_host__begin.map")
	old, err := os.ReadFile(mapFile)
	if err != nil {
		t.Fatalf("map file not written by the first update: %v", err)
	}
	// second batch: a new host, while the map file cannot be written
	h2 := c.config.Hosts().AcquireHost("d2.local")
	h2.AddPath(b, "/", hatypes.MatchBegin)
	os.Remove(mapFile)
	os.Mkdir(mapFile, 0o755)
	err = c.instance.HAProxyUpdate(utils.NewTimer(nil))
	fmt.Println("update with the injected failure returned:", err)
	if err == nil {
		t.Skip("failure injection did not produce an error")
	}
	// the failure goes away (old file still in place), the update is retried
	os.Remove(mapFile)
	os.WriteFile(mapFile, old, 0o644)
	err = c.instance.HAProxyUpdate(utils.NewTimer(nil))
	fmt.Println("retry returned:", err)
	now, _ := os.ReadFile(mapFile)
	fmt.Printf("map after retry:\n%s\n", strings.TrimSpace(string(now)))
	if !strings.Contains(string(now), "d2.local") {
		fmt.Println("REPLAY-CONFIRMED: the failed update committed the pending changes; the retry wrote nothing and d2.local is missing from", filepath.Base(mapFile))
		t.Fail()
	}
	c.logger.Logging = nil
}
