package annotations

// Replay driver for (*updater).findBackend (property C06), injected with go
// test -overlay.  Two hosts of one namespace both declare the oauth2 prefix
// with different services.  The lookup ranges over a Go map and returns the
// first hit, so the auth backend of an oauth-protected path depends on map
// iteration order: repeated lookups on the same state give different answers.

import (
	"fmt"
	"os"
	"testing"

	hatypes "github.com/jcmoraisjr/haproxy-ingress/pkg/haproxy/types"
)

func TestVerifReplay(t *testing.T) {
	fmt.Println("obligation:", os.Getenv("VERIF_OBLIGATION"))
	c := setup(t)
	defer func() { c.logger.Logging = nil; c.teardown() }()
	ba := c.haproxy.Backends().AcquireBackend("default", "proxya", "4180")
	bb := c.haproxy.Backends().AcquireBackend("default", "proxyb", "4180")
	c.haproxy.Hosts().AcquireHost("a.local").AddPath(ba, "/oauth2", hatypes.MatchBegin)
	c.haproxy.Hosts().AcquireHost("b.local").AddPath(bb, "/oauth2", hatypes.MatchBegin)
	u := c.createUpdater()
	seen := map[string]int{}
	for i := 0; i < 200; i++ {
		if b := u.findBackend("default", "/oauth2"); b != nil {
			seen[b.ID]++
		}
	}
	fmt.Println("auth backend chosen over 200 identical lookups:", seen)
	if len(seen) > 1 {
		fmt.Println("REPLAY-CONFIRMED: the same state gives different oauth backends depending on map iteration order")
		t.Fail()
	}
}
