package ingress

// Replay driver for (*converter).fullSyncAnnotations (property C06), injected
// with go test -overlay.  Two ingresses on two hosts declare the same
// redirect-from.  The host annotations are applied while ranging over the hosts
// map; the first host visited keeps the redirect, the other one is ignored.
// The same cluster state is converted by fresh converters (real updater): the
// winner must be the same every time.

import (
	"fmt"
	"os"
	"testing"

	ingtypes "github.com/jcmoraisjr/haproxy-ingress/pkg/converters/ingress/types"
)

func TestVerifReplay(t *testing.T) {
	fmt.Println("obligation:", os.Getenv("VERIF_OBLIGATION"))
	winners := map[string]int{}
	for i := 0; i < 200; i++ {
		c := setup(t)
		c.createSvc1("default/echo", "8080", "172.17.0.11")
		ann := map[string]string{"ingress.kubernetes.io/" + ingtypes.HostRedirectFrom: "www.old.local"}
		c.cache.IngList = nil
		c.cache.IngList = append(c.cache.IngList,
			c.createIng1Ann("default/ing1", "a.local", "/", "echo:8080", ann),
			c.createIng1Ann("default/ing2", "b.local", "/", "echo:8080", ann))
		c.cache.Changed.GlobalConfigMapDataNew = map[string]string{}
		c.cache.SecretTLSPath["system/default"] = "/tls/tls-default.pem"
		conv := c.createConverter() // keeps the real annotation updater
		conv.Sync(true)
		w := ""
		for _, h := range c.hconfig.Hosts().Items() {
			if h.Redirect.RedirectHost != "" {
				w += h.Hostname + " "
			}
		}
		winners[w]++
		c.logger.Logging = nil
	}
	fmt.Println("host that keeps redirect-from www.old.local over 200 conversions of the same state:", winners)
	if len(winners) > 1 {
		fmt.Println("REPLAY-CONFIRMED: the same cluster state gives different configurations depending on map iteration order")
		t.Fail()
	}
}
