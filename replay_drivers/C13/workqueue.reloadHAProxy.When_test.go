package workqueue

// Replay driver for (*reloadHAProxy).When (property C13), injected with
// go test -overlay.  It drives the real limiter with real time: three
// notifications, the third one just after the instant scheduled by the second.
// The instants at which the delaying queue would run the reload are
// now+When(); two distinct ones closer than the interval violate the property.

import (
	"fmt"
	"os"
	"testing"
	"time"
)

func TestVerifReplay(t *testing.T) {
	fmt.Println("model:", os.Getenv("VERIF_MODEL"))
	interval := 300 * time.Millisecond
	r := &reloadHAProxy{interval: interval}
	grant := func() time.Time {
		d := r.When(nil)
		return time.Now().Add(d)
	}
	g1 := grant() // first reload: now
	g2 := grant() // rate limited: g1 + interval
	time.Sleep(time.Until(g2) + 10*time.Millisecond)
	g3 := grant() // asked just after g2 ran
	fmt.Printf("grants: g2-g1=%v g3-g2=%v interval=%v\n", g2.Sub(g1), g3.Sub(g2), interval)
	tol := 5 * time.Millisecond
	if d := g3.Sub(g2); d > tol && d < interval-tol {
		fmt.Println("REPLAY-CONFIRMED: two consecutive reloads", d, "apart, interval", interval)
		t.Fail()
	}
	if d := g2.Sub(g1); d > tol && d < interval-tol {
		fmt.Println("REPLAY-CONFIRMED: two consecutive reloads", d, "apart, interval", interval)
		t.Fail()
	}
}
