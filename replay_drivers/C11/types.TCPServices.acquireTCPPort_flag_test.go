package types

// Replay driver for the TCP services change flag (property C11), injected with
// go test -overlay.  History as performed by a partial sync of a dirty backend
// that serves a TCP port: the service is committed, removed and re-created
// identically; nothing differs from what HAProxy has loaded, but the flag says
// "changed", which checkConfigChange turns into a reload.

import (
	"fmt"
	"os"
	"testing"
)

func TestVerifReplay(t *testing.T) {
	fmt.Println("obligation:", os.Getenv("VERIF_OBLIGATION"))
	s := CreateTCPServices()
	s.AcquireTCPService(":7001")
	s.Commit()
	before := fmt.Sprintf("%v", s.BuildSortedItems())
	s.RemoveService(":7001")
	s.AcquireTCPService(":7001")
	after := fmt.Sprintf("%v", s.BuildSortedItems())
	fmt.Printf("ports before %s / after %s, Changed() = %v\n", before, after, s.Changed())
	if len(s.Items()) == 1 && s.Changed() {
		fmt.Println("REPLAY-CONFIRMED: the TCP service was re-created identically but the collection is flagged as changed (needless reload)")
		t.Fail()
	}
}
