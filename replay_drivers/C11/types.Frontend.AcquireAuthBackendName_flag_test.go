package types

// Replay driver for the frontend change flag (property C11), injected with go
// test -overlay.  History on the real Frontend, as the partial sync performs it
// when only the endpoints of an auth service change: the bind of the auth
// backend is committed; the dirty backend's bind is removed
// (RemoveAuthBackendByTarget) and re-acquired (AcquireAuthBackendName).  The
// bind list is identical to the committed one, so nothing has to be reloaded;
// the flag nevertheless says "changed", which checkConfigChange turns into a
// reload.

import (
	"fmt"
	"os"
	"reflect"
	"testing"
)

func TestVerifReplay(t *testing.T) {
	fmt.Println("obligation:", os.Getenv("VERIF_OBLIGATION"))
	f := &Frontend{AuthProxy: AuthProxy{RangeStart: 14415, RangeEnd: 14499}}
	back := BackendID{Namespace: "default", Name: "authsvc", Port: "8080"}
	name1, err := f.AcquireAuthBackendName(back)
	if err != nil {
		t.Fatal(err)
	}
	f.Commit()
	committed := make([]AuthProxyBind, 0)
	for _, b := range f.AuthProxy.BindList {
		committed = append(committed, *b)
	}
	// partial sync of the dirty backend
	f.RemoveAuthBackendByTarget([]string{back.String()})
	flagAfterRemove := f.Changed()
	name2, _ := f.AcquireAuthBackendName(back)
	now := make([]AuthProxyBind, 0)
	for _, b := range f.AuthProxy.BindList {
		now = append(now, *b)
	}
	same := reflect.DeepEqual(committed, now)
	fmt.Printf("names %s / %s, list identical to the committed one: %v, Changed() after remove: %v, after re-acquire: %v\n", name1, name2, same, flagAfterRemove, f.Changed())
	if same && f.Changed() {
		fmt.Println("REPLAY-CONFIRMED: the bind list equals the committed one but the frontend is flagged as changed (needless reload)")
		t.Fail()
	}
	if !flagAfterRemove && len(committed) > 0 {
		fmt.Println("REPLAY-CONFIRMED: a bind was removed and the frontend is not flagged as changed (flag unsound)")
		t.Fail()
	}
}
