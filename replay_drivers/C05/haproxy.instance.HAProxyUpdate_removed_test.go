package haproxy

// Replay driver for (*instance).HAProxyUpdate (property C05), injected with go
// test -overlay.  History: a successful update with two backends, one of them
// referenced by no host (e.g. a service read for an auth-url that later went
// away); a partial update removes only that backend.  The update succeeds
// ("old and new configurations match"); the files on disk must not declare the
// removed backend any more.

import (
	"fmt"
	"os"
	"path/filepath"
	"strings"
	"testing"

	hatypes "github.com/jcmoraisjr/haproxy-ingress/pkg/haproxy/types"
	"github.com/jcmoraisjr/haproxy-ingress/pkg/utils"
)

func TestVerifReplay(t *testing.T) {
	fmt.Println("obligation:", os.Getenv("VERIF_OBLIGATION"))
	c := setup(t)
	defer os.RemoveAll(c.tempdir)
	b1 := c.config.Backends().AcquireBackend("d1", "app", "8080")
	b1.Endpoints = []*hatypes.Endpoint{endpointS1}
	b2 := c.config.Backends().AcquireBackend("d1", "gone", "8080")
	b2.Endpoints = []*hatypes.Endpoint{endpointS1}
	h := c.config.Hosts().AcquireHost("d1.local")
	h.AddPath(b1, "/", hatypes.MatchBegin)
	if err := c.instance.HAProxyUpdate(utils.NewTimer(nil)); err != nil {
		t.Fatalf("first update failed: %v", err)
	}
	cfg := filepath.Join(c.tempdir, "haproxy.cfg")
	first, _ := os.ReadFile(cfg)
	fmt.Println("after the first update haproxy.cfg declares backend d1_gone_8080:", strings.Contains(string(first), "backend d1_gone_8080"))
	// partial update: only the unreferenced backend is removed
	c.config.Backends().RemoveAll([]string{"d1_gone_8080"})
	err := c.instance.HAProxyUpdate(utils.NewTimer(nil))
	fmt.Println("second update returned:", err)
	now, _ := os.ReadFile(cfg)
	still := strings.Contains(string(now), "backend d1_gone_8080")
	fmt.Println("after the removal haproxy.cfg declares backend d1_gone_8080:", still, " model has it:", c.config.Backends().FindBackend("d1", "gone", "8080") != nil)
	// and nothing is left that would rewrite it later
	fmt.Println("pending backend changes after the update:", c.config.Backends().Changed())
	if still && err == nil {
		fmt.Println("REPLAY-CONFIRMED: the update succeeded, the model has no backend d1_gone_8080, the change markers are cleared and haproxy.cfg still declares it")
		t.Fail()
	}
	c.logger.Logging = nil
}
