package types

// Replay driver for (*Backends).Clear (property C05), injected with go test
// -overlay.  History on the real collection: a sharded collection with one
// backend, committed (its shard file is on disk); a full resync (Clear) whose
// new state has no backend at all; Shrink.  The shard that lost its only
// backend must be reported by ChangedShards, otherwise its file is never
// rewritten and keeps the removed backend.

import (
	"fmt"
	"os"
	"testing"
)

func TestVerifReplay(t *testing.T) {
	fmt.Println("obligation:", os.Getenv("VERIF_OBLIGATION"))
	b := CreateBackends(4)
	back := b.AcquireBackend("default", "app", "8080")
	shard := back.shard
	b.Commit()
	fmt.Println("backend", back.ID, "lives in shard", shard, "- committed; changed shards:", b.ChangedShards())
	b.Clear() // full resync, the new state references no backend
	b.Shrink()
	changed := b.ChangedShards()
	fmt.Println("after Clear+Shrink: items =", len(b.Items()), "shard size =", len(b.shards[shard]), "changed shards =", changed)
	found := false
	for _, s := range changed {
		if s == shard {
			found = true
		}
	}
	if !found {
		fmt.Printf("REPLAY-CONFIRMED: shard %d lost its only backend but is not flagged; its file on disk keeps backend %s\n", shard, back.ID)
		t.Fail()
	}
}
