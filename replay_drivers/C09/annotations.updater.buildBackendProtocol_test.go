package annotations

// Replay driver for (*updater).buildBackendProtocol (property C09), injected
// with go test -overlay.  An Ingress of namespace team-a declares
// secure-crt-secret / secure-verify-ca-secret naming a secret of team-b.  The
// real updater runs against a cache that records the "reader's namespace" it
// is given and applies the real gate rule of the cache facade
// (services.buildResourceName: a foreign namespace is refused unless allowed).
// With every cross-namespace key on deny the secret of team-b must be refused.

import (
	"fmt"
	"os"
	"strings"
	"testing"

	ingtypes "github.com/jcmoraisjr/haproxy-ingress/pkg/converters/ingress/types"
	convtypes "github.com/jcmoraisjr/haproxy-ingress/pkg/converters/types"
)

type verifGateCache struct {
	convtypes.Cache
	seen []string
}

// the gate of pkg/controller/services/cache.go buildResourceName, cross-namespace denied
func (g *verifGateCache) gate(defaultNamespace, name string) error {
	g.seen = append(g.seen, defaultNamespace+" <- "+name)
	if i := strings.Index(name, "/"); i >= 0 && defaultNamespace != "" && name[:i] != defaultNamespace {
		return fmt.Errorf("trying to read secret '%s' cross namespaces, but cross-namespace reading is disabled", name)
	}
	return nil
}

func (g *verifGateCache) GetTLSSecretPath(defaultNamespace, secretName string, track []convtypes.TrackingRef) (convtypes.CrtFile, error) {
	if err := g.gate(defaultNamespace, secretName); err != nil {
		return convtypes.CrtFile{}, err
	}
	return g.Cache.GetTLSSecretPath(defaultNamespace, secretName, track)
}

func (g *verifGateCache) GetCASecretPath(defaultNamespace, secretName string, track []convtypes.TrackingRef) (ca, crl convtypes.File, err error) {
	if err := g.gate(defaultNamespace, secretName); err != nil {
		return ca, crl, err
	}
	return g.Cache.GetCASecretPath(defaultNamespace, secretName, track)
}

func TestVerifReplay(t *testing.T) {
	fmt.Println("obligation:", os.Getenv("VERIF_OBLIGATION"))
	c := setup(t)
	defer c.teardown()
	c.cache.SecretTLSPath = map[string]string{"team-b/crt": "/tls/team-b-crt.pem"}
	c.cache.SecretCAPath = map[string]string{"team-b/ca": "/tls/team-b-ca.pem"}
	source := &Source{Namespace: "team-a", Name: "ing1", Type: "ingress"}
	d := c.createBackendData("team-a/app", source, map[string]string{
		ingtypes.BackBackendProtocol:      "h1-ssl",
		ingtypes.BackSecureCrtSecret:      "team-b/crt",
		ingtypes.BackSecureVerifyCASecret: "team-b/ca",
	}, map[string]string{})
	u := c.createUpdater()
	g := &verifGateCache{Cache: u.cache}
	u.cache = g
	u.buildBackendProtocol(d)
	c.logger.Logging = nil
	for _, s := range g.seen {
		fmt.Println("cache asked (reader namespace <- secret):", s)
	}
	fmt.Printf("backend of team-a: CrtFilename=%q CAFilename=%q\n", d.backend.Server.CrtFilename, d.backend.Server.CAFilename)
	if d.backend.Server.CrtFilename != "" || d.backend.Server.CAFilename != "" {
		fmt.Println("REPLAY-CONFIRMED: an Ingress of team-a got the secret of team-b although cross-namespace reading is denied: the namespace in the annotation value was passed as the reader's namespace")
		t.Fail()
	}
}
