package annotations

// Replay driver for (*updater).setAuthExternal (property C09), injected with go
// test -overlay.  An Ingress of team-b has built the backend of its service
// team-b/authsvc:9090.  An Ingress of team-a declares
// auth-url: svc://team-b/authsvc:9090 while cross-namespace-services is deny.
// The path of team-a must not be wired to the service of team-b.

import (
	"fmt"
	"os"
	"testing"

	ingtypes "github.com/jcmoraisjr/haproxy-ingress/pkg/converters/ingress/types"
)

func TestVerifReplay(t *testing.T) {
	fmt.Println("obligation:", os.Getenv("VERIF_OBLIGATION"))
	c := setup(t)
	defer func() { c.logger.Logging = nil; c.teardown() }()
	// what the ingress of team-b left in the model
	foreign := c.haproxy.Backends().AcquireBackend("team-b", "authsvc", "9090")
	source := &Source{Namespace: "team-a", Name: "ing1", Type: "ingress"}
	d := c.createBackendMappingData("team-a/app", source, map[string]string{ingtypes.BackAuthExternalPlacement: "backend"},
		map[string]map[string]string{"/": {ingtypes.BackAuthURL: "svc://team-b/authsvc:9090"}}, []string{})
	u := c.createUpdater()
	c.haproxy.Frontend().AuthProxy.RangeStart = 14415
	c.haproxy.Frontend().AuthProxy.RangeEnd = 14499
	fmt.Println("cross-namespace-services allowed:", u.options.DynamicConfig.CrossNamespaceServices)
	u.buildBackendAuthExternal(d)
	for _, p := range d.backend.Paths {
		fmt.Printf("path %s of team-a: AlwaysDeny=%v AuthBackendName=%q\n", p.Path(), p.AuthExternal.AlwaysDeny, p.AuthExternal.AuthBackendName)
		if !p.AuthExternal.AlwaysDeny && p.AuthExternal.AuthBackendName != "" {
			for _, b := range c.haproxy.Frontend().AuthProxy.BindList {
				if b.AuthBackendName == p.AuthExternal.AuthBackendName && b.Backend == foreign.BackendID() {
					fmt.Println("REPLAY-CONFIRMED: an Ingress of team-a authenticates against the service backend", foreign.ID, "of team-b although cross-namespace-services is deny")
					t.Fail()
				}
			}
		}
	}
}
