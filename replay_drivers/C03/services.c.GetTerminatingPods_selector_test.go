package services

// Replay driver for (*c).GetTerminatingPods (property C03), injected with go
// test -overlay.  A Service without selector (endpoints managed by hand) lives in
// a namespace where an unrelated pod is terminating.  With drain-support the
// converter asks the cache for the terminating pods of the service and adds
// every one of them as a weight-0 server: the service must get none.

import (
	"context"
	"fmt"
	"os"
	"testing"

	api "k8s.io/api/core/v1"
	metav1 "k8s.io/apimachinery/pkg/apis/meta/v1"
	"sigs.k8s.io/controller-runtime/pkg/client/fake"

	ctrlconfig "github.com/jcmoraisjr/haproxy-ingress/pkg/controller/config"
	"github.com/jcmoraisjr/haproxy-ingress/pkg/converters/tracker"
	convtypes "github.com/jcmoraisjr/haproxy-ingress/pkg/converters/types"
)

func TestVerifReplay(t *testing.T) {
	fmt.Println("obligation:", os.Getenv("VERIF_OBLIGATION"))
	now := metav1.Now()
	pod := &api.Pod{ObjectMeta: metav1.ObjectMeta{Namespace: "team-a", Name: "other-app-1", Labels: map[string]string{"app": "other"},
		DeletionTimestamp: &now, Finalizers: []string{"keep"}}, Status: api.PodStatus{PodIP: "10.0.0.9"}}
	cli := fake.NewClientBuilder().WithObjects(pod).Build()
	cache := createCacheFacade(context.Background(), cli, &ctrlconfig.Config{}, tracker.NewTracker(), nil, &convtypes.DynamicConfig{}, nil)
	svc := &api.Service{ObjectMeta: metav1.ObjectMeta{Namespace: "team-a", Name: "manual"}} // no selector
	pods, err := cache.GetTerminatingPods(svc, nil)
	fmt.Printf("terminating pods of the selector-less service team-a/manual: %d (err=%v)\n", len(pods), err)
	for _, p := range pods {
		fmt.Printf("  %s/%s labels=%v ip=%s\n", p.Namespace, p.Name, p.Labels, p.Status.PodIP)
	}
	if err == nil && len(pods) > 0 {
		fmt.Println("REPLAY-CONFIRMED: a pod that the service does not select is returned as one of its draining servers")
		t.Fail()
	}
}
