package annotations

// Replay driver for (*updater).buildBackendOAuth (property C18), injected with
// go test -overlay.  Two scenarios on the real updater (auth-url pass followed
// by the oauth pass, as updater.UpdateBackendConfig runs them):
//  (a) a path with a malformed auth-url and oauth: the auth-url pass denies the
//      path, the oauth pass must not re-open it;
//  (b) path "/" declares oauth only, path "/app" of the same backend declares a
//      valid auth-url: "/" must end intercepted or denied.
// A path that declares external authentication and ends with AlwaysDeny ==
// false and no auth backend is served unauthenticated.

import (
	"fmt"
	"os"
	"testing"

	ingtypes "github.com/jcmoraisjr/haproxy-ingress/pkg/converters/ingress/types"
)

func TestVerifReplay(t *testing.T) {
	fmt.Println("obligation:", os.Getenv("VERIF_OBLIGATION"))
	source := &Source{Namespace: "default", Name: "ing1", Type: "ingress"}
	scenarios := []struct {
		name  string
		ann   map[string]map[string]string
		check string
	}{
		{"a: malformed auth-url + oauth on the same path", map[string]map[string]string{
			"/": {ingtypes.BackAuthURL: "http://bad host:8000", ingtypes.BackOAuth: "oauth2_proxy"},
		}, "/"},
		{"b: oauth on / , valid auth-url on /app", map[string]map[string]string{
			"/":    {ingtypes.BackOAuth: "oauth2_proxy"},
			"/app": {ingtypes.BackAuthURL: "http://10.0.0.2:8000"},
		}, "/"},
	}
	for _, sc := range scenarios {
		c := setup(t)
		d := c.createBackendMappingData("default/app", source, map[string]string{ingtypes.BackAuthExternalPlacement: "backend"}, sc.ann, []string{})
		u := c.createUpdater()
		u.buildBackendAuthExternal(d)
		for _, p := range d.backend.Paths {
			if p.Path() == sc.check {
				fmt.Printf("%s: after auth-url pass: AlwaysDeny=%v AuthBackendName=%q\n", sc.name, p.AuthExternal.AlwaysDeny, p.AuthExternal.AuthBackendName)
			}
		}
		u.buildBackendOAuth(d)
		for _, p := range d.backend.Paths {
			if p.Path() != sc.check {
				continue
			}
			fmt.Printf("%s: after oauth pass:    AlwaysDeny=%v AuthBackendName=%q\n", sc.name, p.AuthExternal.AlwaysDeny, p.AuthExternal.AuthBackendName)
			if !p.AuthExternal.AlwaysDeny && p.AuthExternal.AuthBackendName == "" {
				fmt.Println("REPLAY-CONFIRMED: path", p.Path(), "declares external authentication but is neither intercepted nor denied (", sc.name, ")")
				t.Fail()
			}
		}
		c.logger.Logging = nil
		c.teardown()
	}
}
