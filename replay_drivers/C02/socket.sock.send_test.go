package socket

// Replay driver for (*sock).send (property C02), injected with go test
// -overlay.  The peer accepts the connection, reads the command and closes the
// connection without answering anything (a worker that is going away).  The
// real client must report an error: an empty string with a nil error is what a
// successful `set server` looks like ("" is accepted by cmdResponseOK), so the
// dynamic update would be counted as applied and no reload requested.

import (
	"fmt"
	"net"
	"os"
	"path/filepath"
	"testing"
)

func TestVerifReplay(t *testing.T) {
	fmt.Println("obligation:", os.Getenv("VERIF_OBLIGATION"))
	dir, _ := os.MkdirTemp("", "verif-sock")
	defer os.RemoveAll(dir)
	addr := filepath.Join(dir, "admin.sock")
	l, err := net.Listen("unix", addr)
	if err != nil {
		t.Skip("cannot listen:", err)
	}
	defer l.Close()
	go func() {
		for {
			c, err := l.Accept()
			if err != nil {
				return
			}
			buf := make([]byte, 256)
			c.Read(buf) // the command arrives ...
			c.Close()   // ... and nothing is answered
		}
	}()
	s := NewSocket(addr, false)
	out, err := s.Send(nil, "set server d1_app_8080/srv001 state ready")
	fmt.Printf("Send returned %q, error: %v\n", out, err)
	if err == nil && len(out) == 1 && out[0] == "" {
		fmt.Println("REPLAY-CONFIRMED: the peer closed the connection without answering and the command is reported as answered with the empty (= success) response")
		t.Fail()
	}
}
