#!/bin/sh
# mut.sh <prop> <file> <sed-expr> : apply a mutation to /repo, run the check, revert
prop=$1; file=$2; expr=$3
cp /repo/$file /tmp/mut.bak
cp /verif/evidence/$prop.json /tmp/mut.ev.bak 2>/dev/null
sed -i "$expr" /repo/$file
if cmp -s /repo/$file /tmp/mut.bak; then echo "MUTATION DID NOT APPLY"; exit 2; fi
(cd /repo && GOFLAGS=-mod=mod GOPROXY=off GOTOOLCHAIN=local go build ./$(dirname $file)/ 2>&1 | head -3)
/verif/check $prop 2>&1 | grep -v "^MACHINERY: UNCLAIMED" | cut -c1-220 | tail -6
cp /tmp/mut.bak /repo/$file
cp /tmp/mut.ev.bak /verif/evidence/$prop.json 2>/dev/null
