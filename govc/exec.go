package main

// Symbolic execution of one SSA function body (naive form), loops cut at
// their headers with invariants, states merged at joins.

import (
	"fmt"
	"go/constant"
	"go/token"
	"go/types"
	"os"
	"sort"
	"strings"

	"golang.org/x/tools/go/ssa"
)

type unsupported struct{ msg string }

func (vc *VC) reject(format string, a ...interface{}) {
	panic(unsupported{fmt.Sprintf(format, a...)})
}

type Exit struct {
	st      *State
	results []Val
	ret     *ssa.Return
}

type loopInfo struct {
	header *ssa.BasicBlock
	blocks map[*ssa.BasicBlock]bool
	ord    int    // 1-based ordinal in source order
	backs  int    // back edges seen so far
	headSt *State // state at the loop head of the arbitrary iteration (after havoc and assumptions)
}

type Frame struct {
	vc         *VC
	id         int
	fn         *ssa.Function
	vals       map[ssa.Value]Val
	reg        map[*ssa.Alloc]bool
	params     []Val
	freeVars   []Val
	entry      *State // state at entry (for old())
	depth      int
	contract   *Contract // contract being verified (top-level frame only)
	top        bool
	loops      map[*ssa.BasicBlock]*loopInfo
	edgePC     map[*ssa.BasicBlock]map[*ssa.BasicBlock]Term
	defers     []*ssa.Defer
	rangeOf    map[*ssa.Next]*ssa.Range
	specVars   map[string]Val // params by name at entry
	callOrd    map[string]int
	entryAlloc Term
	up         *Frame
	siteOrd    map[ssa.Instruction]int
	isInit     bool
}

func (vc *VC) newFrame(fn *ssa.Function, depth int) *Frame {
	vc.frames++
	fr := &Frame{vc: vc, id: vc.frames, fn: fn, vals: map[ssa.Value]Val{}, reg: map[*ssa.Alloc]bool{}, depth: depth,
		edgePC: map[*ssa.BasicBlock]map[*ssa.BasicBlock]Term{}, callOrd: map[string]int{}}
	for _, b := range fn.Blocks {
		for _, in := range b.Instrs {
			if a, ok := in.(*ssa.Alloc); ok && isRegister(a) {
				fr.reg[a] = true
			}
			if d, ok := in.(*ssa.Defer); ok {
				fr.defers = append(fr.defers, d)
			}
		}
	}
	fr.loops = findLoops(fn)
	return fr
}

func isRegister(a *ssa.Alloc) bool {
	if a.Referrers() == nil {
		return false
	}
	return addrStaysLocal(a, 0)
}

// addrStaysLocal: the address v is only loaded from, stored to, or refined by
// field selection (whose results obey the same rule).
func addrStaysLocal(v ssa.Value, depth int) bool {
	if depth > 6 || v.Referrers() == nil {
		return false
	}
	for _, r := range *v.Referrers() {
		switch r := r.(type) {
		case *ssa.Store:
			if r.Val == v {
				return false
			}
		case *ssa.UnOp:
			if r.Op != token.MUL {
				return false
			}
		case *ssa.DebugRef:
		case *ssa.FieldAddr:
			if !addrStaysLocal(r, depth+1) {
				return false
			}
		default:
			return false
		}
	}
	return true
}

// localRoot: if v is a register-like alloc or a field address inside one,
// returns the alloc, the slot offset and the type at that address.
func (fr *Frame) localRoot(v ssa.Value) (*ssa.Alloc, int, types.Type, bool) {
	switch x := v.(type) {
	case *ssa.Alloc:
		if fr.reg[x] {
			return x, 0, x.Type().(*types.Pointer).Elem(), true
		}
	case *ssa.FieldAddr:
		a, off, t, ok := fr.localRoot(x.X)
		if !ok {
			return nil, 0, nil, false
		}
		stt := t.Underlying().(*types.Struct)
		return a, off + fr.vc.p.lay.fieldOffset(stt, x.Field), stt.Field(x.Field).Type(), true
	}
	return nil, 0, nil, false
}

func (fr *Frame) localKey(a *ssa.Alloc, slot int) string {
	return fmt.Sprintf("f%d:L:%s:%d", fr.id, a.Name(), slot)
}

func (fr *Frame) getLocal(st *State, a *ssa.Alloc) Val {
	t := a.Type().(*types.Pointer).Elem()
	lay := fr.vc.p.lay.of(t)
	v := Val{T: t}
	for i := range lay.Kinds {
		tm, ok := st.v[fr.localKey(a, i)]
		if !ok {
			tm = zeroTerm(lay.Kinds[i])
		}
		v.S = append(v.S, tm)
	}
	return v
}

func (fr *Frame) setLocal(st *State, a *ssa.Alloc, v Val) {
	lay := fr.vc.p.lay.of(a.Type().(*types.Pointer).Elem())
	for i, k := range lay.Kinds {
		key := fr.localKey(a, i)
		fr.vc.ensureKey(key, k.Sort())
		st.v[key] = v.S[i]
	}
}

// findLoops computes natural loops from back edges (target dominates source).
func findLoops(fn *ssa.Function) map[*ssa.BasicBlock]*loopInfo {
	loops := map[*ssa.BasicBlock]*loopInfo{}
	for _, b := range fn.Blocks {
		for _, s := range b.Succs {
			if s.Dominates(b) {
				li := loops[s]
				if li == nil {
					li = &loopInfo{header: s, blocks: map[*ssa.BasicBlock]bool{s: true}}
					loops[s] = li
				}
				// all nodes reaching b without passing s
				stack := []*ssa.BasicBlock{b}
				for len(stack) > 0 {
					x := stack[len(stack)-1]
					stack = stack[:len(stack)-1]
					if li.blocks[x] {
						continue
					}
					li.blocks[x] = true
					for _, p := range x.Preds {
						stack = append(stack, p)
					}
				}
			}
		}
	}
	var hs []*ssa.BasicBlock
	for h := range loops {
		hs = append(hs, h)
	}
	sort.Slice(hs, func(i, j int) bool { return hs[i].Index < hs[j].Index })
	for i, h := range hs {
		loops[h].ord = i + 1
	}
	return loops
}

func rpo(fn *ssa.Function) []*ssa.BasicBlock {
	seen := map[*ssa.BasicBlock]bool{}
	var post []*ssa.BasicBlock
	var dfs func(b *ssa.BasicBlock)
	dfs = func(b *ssa.BasicBlock) {
		seen[b] = true
		for _, s := range b.Succs {
			if !seen[s] {
				dfs(s)
			}
		}
		post = append(post, b)
	}
	dfs(fn.Blocks[0])
	for i, j := 0, len(post)-1; i < j; i, j = i+1, j-1 {
		post[i], post[j] = post[j], post[i]
	}
	return post
}

// run executes the function from state st; returns the exits (Return sites).
func (fr *Frame) run(st *State) []Exit {
	vc := fr.vc
	fn := fr.fn
	if fn.Blocks == nil {
		vc.reject("function %s has no body", funcKey(fn))
	}
	if fn.Recover != nil {
		vc.notes["recover block of "+funcKey(fn)+" not modelled"] = true
	}
	fr.entry = st.clone()
	fr.entryAlloc = vc.get(st, vc.allocKey())
	in := map[*ssa.BasicBlock][]edgeIn{}
	var exits []Exit
	order := rpo(fn)
	for _, b := range order {
		var cur *State
		if b == fn.Blocks[0] {
			cur = st
		} else {
			ins := in[b]
			if len(ins) == 0 {
				continue // unreachable (or reachable through back edges only)
			}
			sort.SliceStable(ins, func(i, j int) bool { return ins[i].pred.Index < ins[j].pred.Index })
			epc := map[*ssa.BasicBlock]Term{}
			for _, e := range ins {
				epc[e.pred] = e.st.pc
			}
			fr.edgePC[b] = epc
			cur = vc.merge(fmt.Sprintf("f%d.b%d", fr.id, b.Index), ins)
			// phi values
			for _, instr := range b.Instrs {
				phi, ok := instr.(*ssa.Phi)
				if !ok {
					break
				}
				fr.execPhi(cur, phi, b, ins)
			}
		}
		if li := fr.loops[b]; li != nil {
			fr.loopHead(cur, li)
		}
		alive := true
		for _, instr := range b.Instrs {
			if _, ok := instr.(*ssa.Phi); ok {
				continue
			}
			if p := instr.Pos(); p.IsValid() {
				vc.curPos = p
			}
			switch x := instr.(type) {
			case *ssa.If:
				c := fr.val(cur, x.Cond).S[0]
				c = vc.define("c", "Bool", c)
				fr.edge(in, b, b.Succs[0], cur.with(c))
				fr.edge(in, b, b.Succs[1], cur.with(tNot(c)))
				alive = false
			case *ssa.Jump:
				fr.edge(in, b, b.Succs[0], cur)
				alive = false
			case *ssa.Return:
				var rs []Val
				for _, r := range x.Results {
					rs = append(rs, fr.val(cur, r))
				}
				exits = append(exits, Exit{st: cur, results: rs, ret: x})
				alive = false
			case *ssa.Panic:
				fr.safety(cur, "panic", tFalse, "explicit panic")
				alive = false
			default:
				if os.Getenv("GOVC_DEBUG") == "2" && fr.top {
					fmt.Fprintln(os.Stderr, "exec", instr.String())
				}
				fr.exec(cur, instr)
			}
			if !alive {
				break
			}
		}
	}
	return exits
}

func (fr *Frame) edge(in map[*ssa.BasicBlock][]edgeIn, from, to *ssa.BasicBlock, st *State) {
	if to.Dominates(from) {
		// back edge: loop invariants must be preserved
		li := fr.loops[to]
		fr.loopBack(st, li, from)
		return
	}
	in[to] = append(in[to], edgeIn{pred: from, st: st})
}

func (fr *Frame) execPhi(cur *State, phi *ssa.Phi, b *ssa.BasicBlock, ins []edgeIn) {
	vc := fr.vc
	lay := vc.p.lay.of(phi.Type())
	v := Val{T: phi.Type()}
	for i, k := range lay.Kinds {
		v.S = append(v.S, vc.fresh(fmt.Sprintf("f%d.%s.%d", fr.id, phi.Name(), i), k.Sort()))
	}
	for _, e := range ins {
		idx := -1
		for i, p := range b.Preds {
			if p == e.pred {
				idx = i
				break
			}
		}
		ev := fr.val(e.st, phi.Edges[idx])
		for i := range v.S {
			vc.assumeRaw(tImp(e.st.pc, tEq(v.S[i], ev.S[i])))
		}
	}
	fr.vals[phi] = v
}

// safety emits a panic-freedom obligation when the function is marked safe,
// otherwise assumes the condition (normal-return semantics).
func (fr *Frame) safety(st *State, kind string, cond Term, what string) {
	vc := fr.vc
	if cond == tTrue {
		return
	}
	if fr.top && fr.contract != nil && fr.contract.Safe && !vc.quiet && safeSelected(fr.contract, what) {
		fr.callOrd["safe:"+kind]++
		name := fmt.Sprintf("%s/safe[%s#%d]", vc.fnKey, kind, fr.callOrd["safe:"+kind])
		vc.oblige(st, name, "safe", cond, what)
	}
	vc.assume(st, cond)
}

// val returns the symbolic value of an SSA operand.
func (fr *Frame) val(st *State, v ssa.Value) Val {
	vc := fr.vc
	switch x := v.(type) {
	case *ssa.Const:
		return fr.constVal(x)
	case *ssa.Global:
		return Val{T: x.Type(), S: []Term{tInt(int64(vc.p.globalRef(x))), "0"}}
	case *ssa.Function:
		name := "fn." + cleanName(funcKey(x))
		if vc.closures[name] == nil {
			vc.closures[name] = &closureInfo{fn: x}
			vc.decls = append(vc.decls, fmt.Sprintf("(declare-const %s Int)", name))
			vc.decls = append(vc.decls, fmt.Sprintf("(assert (> %s 0))", name))
		}
		return Val{T: x.Type(), S: []Term{name, "0"}}
	case *ssa.Builtin:
		return Val{T: x.Type(), S: []Term{"0", "0"}}
	case *ssa.Parameter:
		for i, p := range fr.fn.Params {
			if p == x {
				return fr.params[i]
			}
		}
	case *ssa.FreeVar:
		for i, p := range fr.fn.FreeVars {
			if p == x {
				return fr.freeVars[i]
			}
		}
	case *ssa.Alloc:
		if fr.reg[x] {
			vc.reject("address of register-like alloc %s used as value", x.Name())
		}
	}
	if r, ok := fr.vals[v]; ok {
		return r
	}
	vc.reject("value %s (%T) of %s not available", v.Name(), v, funcKey(fr.fn))
	return Val{}
}

func (fr *Frame) constVal(c *ssa.Const) Val {
	vc := fr.vc
	t := c.Type()
	if c.Value == nil {
		return vc.zeroVal(t)
	}
	switch u := t.Underlying().(type) {
	case *types.Basic:
		switch {
		case u.Info()&types.IsBoolean != 0:
			if constant.BoolVal(c.Value) {
				return Val{T: t, S: []Term{tTrue}}
			}
			return Val{T: t, S: []Term{tFalse}}
		case u.Info()&types.IsInteger != 0:
			return Val{T: t, S: []Term{tBigInt(constant.ToInt(c.Value).ExactString())}}
		case u.Info()&types.IsString != 0:
			return Val{T: t, S: []Term{vc.strLit(constant.StringVal(c.Value))}}
		case u.Info()&types.IsFloat != 0:
			if iv := constant.ToInt(c.Value); iv.Kind() == constant.Int {
				return Val{T: t, S: []Term{sx("i2f", tBigInt(iv.ExactString()))}}
			}
			return Val{T: t, S: []Term{vc.fltLit(c.Value.ExactString())}}
		}
	case *types.TypeParam:
		return vc.zeroVal(t)
	}
	vc.reject("constant %v of type %v", c, t)
	return Val{}
}

func (fr *Frame) setVal(v ssa.Value, val Val) {
	if len(val.S) != fr.vc.p.lay.size(v.Type()) {
		panic(fmt.Sprintf("setVal %s: %d slots for type %v (want %d)", v.Name(), len(val.S), v.Type(), fr.vc.p.lay.size(v.Type())))
	}
	val.T = v.Type()
	fr.vals[v] = val
}

// exec executes one non-terminator instruction.
func (fr *Frame) exec(st *State, instr ssa.Instruction) {
	vc := fr.vc
	lay := vc.p.lay
	switch x := instr.(type) {
	case *ssa.DebugRef:
	case *ssa.Alloc:
		et := x.Type().(*types.Pointer).Elem()
		if fr.reg[x] {
			fr.setLocal(st, x, vc.zeroVal(et))
			return
		}
		r := vc.newObject(st, "cell."+x.Name(), et, lay.of(et).Kinds)
		fr.setVal(x, Val{S: []Term{r, "0"}})
	case *ssa.Store:
		if a, ok := x.Addr.(*ssa.Alloc); ok && fr.reg[a] {
			fr.setLocal(st, a, fr.val(st, x.Val))
			return
		}
		if a, off, _, ok := fr.localRoot(x.Addr); ok {
			whole := fr.getLocal(st, a)
			v := fr.val(st, x.Val)
			ns := append([]Term{}, whole.S...)
			copy(ns[off:], v.S)
			fr.setLocal(st, a, Val{T: whole.T, S: ns})
			return
		}
		p := fr.val(st, x.Addr)
		fr.safety(st, "nil-deref", tNot(tEq(p.S[0], "0")), "store through "+x.Addr.Name()+" of type "+x.Addr.Type().String())
		v := fr.val(st, x.Val)
		v.T = x.Addr.Type().Underlying().(*types.Pointer).Elem()
		vc.storeAt(st, p.S[0], p.S[1], v)
		if os.Getenv("GOVC_DEBUG") != "" {
			if g, ok := x.Addr.(*ssa.Global); ok {
				fmt.Fprintln(os.Stderr, "store to global", g.Name(), fr.top, fr.isInit, st.pc)
			}
		}
		if g, ok := x.Addr.(*ssa.Global); ok && fr.top && fr.isInit {
			fr.checkGlobalInvs(st, g)
		}
	case *ssa.UnOp:
		fr.execUnOp(st, x)
	case *ssa.BinOp:
		a, b := fr.val(st, x.X), fr.val(st, x.Y)
		fr.setVal(x, fr.binop(st, x.Op, a, b, x.Type()))
	case *ssa.FieldAddr:
		if _, _, _, ok := fr.localRoot(x); ok {
			return // address inside a register-like local: resolved at its uses
		}
		p := fr.val(st, x.X)
		stt := x.X.Type().Underlying().(*types.Pointer).Elem().Underlying().(*types.Struct)
		fr.safety(st, "nil-deref", tNot(tEq(p.S[0], "0")), "field address through "+x.X.Name()+" of type "+x.X.Type().String())
		fr.setVal(x, Val{S: []Term{p.S[0], tAdd(p.S[1], tInt(int64(lay.fieldOffset(stt, x.Field))))}})
		if vc.guarded != nil && vc.inQuant == 0 {
			// lock discipline: a guarded field is reached only while its mutex is held
			// (also inside inlined callees)
			for _, g := range vc.guarded {
				if stt.Field(x.Field).Name() != g[0] {
					continue
				}
				for mi := 0; mi < stt.NumFields(); mi++ {
					if stt.Field(mi).Name() != g[1] || len(lay.of(stt.Field(mi).Type()).Kinds) != 1 || lay.of(stt.Field(mi).Type()).Kinds[0] != KM {
						continue
					}
					hm := vc.get(st, vc.heapKey(KM))
					held := tSel2(hm, p.S[0], tAdd(p.S[1], tInt(int64(lay.fieldOffset(stt, mi)))))
					vc.guardN++
					name := fmt.Sprintf("%s/guarded[%s#%d]", vc.fnKey, g[0], vc.guardN)
					vc.curPos = x.Pos()
					vc.oblige(st, name, "guarded", held, fmt.Sprintf("field %s is accessed only while %s is held", g[0], g[1]))
				}
			}
		}
	case *ssa.Field:
		s := fr.val(st, x.X)
		stt := x.X.Type().Underlying().(*types.Struct)
		off := lay.fieldOffset(stt, x.Field)
		n := lay.size(stt.Field(x.Field).Type())
		fr.setVal(x, Val{S: append([]Term{}, s.S[off:off+n]...)})
	case *ssa.IndexAddr:
		base := fr.val(st, x.X)
		idx := fr.val(st, x.Index).S[0]
		switch u := x.X.Type().Underlying().(type) {
		case *types.Slice:
			es := lay.size(u.Elem())
			fr.safety(st, "index", tAnd(tLe("0", idx), tLt(idx, base.S[2])), "index of "+x.X.Name())
			fr.setVal(x, Val{S: []Term{base.S[0], vc.elemOff(base.S[1], idx, es)}})
		case *types.Pointer:
			arr := u.Elem().Underlying().(*types.Array)
			es := lay.size(arr.Elem())
			fr.safety(st, "index", tAnd(tLe("0", idx), tLt(idx, tInt(arr.Len()))), "index of "+x.X.Name())
			fr.setVal(x, Val{S: []Term{base.S[0], vc.elemOff(base.S[1], idx, es)}})
		default:
			vc.reject("IndexAddr on %v", x.X.Type())
		}
	case *ssa.Index:
		base := fr.val(st, x.X)
		idx := fr.val(st, x.Index).S[0]
		switch u := x.X.Type().Underlying().(type) {
		case *types.Basic: // string
			fr.safety(st, "index", tAnd(tLe("0", idx), tLt(idx, sx("slen", base.S[0]))), "string index")
			fr.setVal(x, Val{S: []Term{sx("sbyte", base.S[0], idx)}})
		case *types.Array:
			es := lay.size(u.Elem())
			// constant index only
			if c, ok := x.Index.(*ssa.Const); ok {
				i := int(c.Int64())
				fr.setVal(x, Val{S: append([]Term{}, base.S[i*es:(i+1)*es]...)})
			} else {
				vc.reject("Index on array value with dynamic index")
			}
		default:
			vc.reject("Index on %v", x.X.Type())
		}
	case *ssa.Lookup:
		fr.execLookup(st, x)
	case *ssa.Slice:
		fr.execSlice(st, x)
	case *ssa.Extract:
		tup := fr.val(st, x.Tuple)
		tp := x.Tuple.Type().(*types.Tuple)
		off := lay.tupleOffset(tp, x.Index)
		n := lay.size(tp.At(x.Index).Type())
		fr.setVal(x, Val{S: append([]Term{}, tup.S[off:off+n]...)})
	case *ssa.MakeInterface:
		fr.setVal(x, fr.makeInterface(st, fr.val(st, x.X), x.X.Type()))
	case *ssa.ChangeInterface:
		fr.setVal(x, Val{S: fr.val(st, x.X).S})
	case *ssa.ChangeType:
		fr.setVal(x, Val{S: fr.val(st, x.X).S})
	case *ssa.Convert:
		fr.setVal(x, fr.convert(st, fr.val(st, x.X), x.X.Type(), x.Type()))
	case *ssa.MultiConvert:
		fr.setVal(x, fr.convert(st, fr.val(st, x.X), x.X.Type(), x.Type()))
	case *ssa.TypeAssert:
		fr.execTypeAssert(st, x)
	case *ssa.MakeMap:
		mt := x.Type().Underlying().(*types.Map)
		r := vc.newObject(st, x.Name(), x.Type(), nil)
		dk := vc.mapDomKey(mt.Key())
		ks, _ := vc.keySortOf(mt.Key())
		vc.set(st, dk, tSto(vc.get(st, dk), r, fmt.Sprintf("((as const (Array %s Bool)) false)", ks)))
		lk := vc.mapLenKey()
		vc.set(st, lk, tSto(vc.get(st, lk), r, "0"))
		fr.setVal(x, Val{S: []Term{r}})
	case *ssa.MapUpdate:
		m := fr.val(st, x.Map)
		fr.safety(st, "nil-map", tNot(tEq(m.S[0], "0")), "write to nil map "+x.Map.Name())
		mt := x.Map.Type().Underlying().(*types.Map)
		k := fr.val(st, x.Key)
		k.T = mt.Key()
		v := fr.val(st, x.Value)
		v.T = mt.Elem()
		vc.mapSet(st, m.S[0], k, v)
	case *ssa.MakeSlice:
		st0 := x.Type().Underlying().(*types.Slice)
		ln := fr.val(st, x.Len).S[0]
		cp := fr.val(st, x.Cap).S[0]
		fr.safety(st, "makeslice", tAnd(tLe("0", ln), tLe(ln, cp)), "make slice bounds")
		r := vc.newObject(st, x.Name(), x.Type(), lay.of(st0.Elem()).Kinds)
		fr.setVal(x, Val{S: []Term{r, "0", ln, cp}})
	case *ssa.MakeClosure:
		fn := x.Fn.(*ssa.Function)
		name := vc.fresh("clo."+cleanName(fn.Name()), "Int")
		vc.assume(st, tLt("0", name))
		ci := &closureInfo{fn: fn}
		for _, b := range x.Bindings {
			ci.bindings = append(ci.bindings, fr.val(st, b))
		}
		vc.closures[name] = ci
		fr.setVal(x, Val{S: []Term{name, "0"}})
	case *ssa.Range:
		fr.execRange(st, x)
	case *ssa.Next:
		fr.execNext(st, x)
	case *ssa.Call:
		res := fr.call(st, &x.Call, x)
		if lay.size(x.Type()) > 0 || len(res.S) > 0 {
			fr.setVal(x, res)
		} else {
			fr.vals[x] = Val{T: x.Type()}
		}
	case *ssa.Defer:
		fr.execDefer(st, x)
	case *ssa.RunDefers:
		fr.runDefers(st)
	case *ssa.Go, *ssa.Send, *ssa.Select:
		vc.reject("%T is outside the modelled subset (concurrency)", instr)
	default:
		vc.reject("instruction %T not supported", instr)
	}
}

func (fr *Frame) execUnOp(st *State, x *ssa.UnOp) {
	vc := fr.vc
	switch x.Op {
	case token.MUL:
		if a, ok := x.X.(*ssa.Alloc); ok && fr.reg[a] {
			fr.setVal(x, fr.getLocal(st, a))
			return
		}
		if a, off, t, ok := fr.localRoot(x.X); ok {
			whole := fr.getLocal(st, a)
			n := vc.p.lay.size(t)
			fr.setVal(x, Val{S: append([]Term{}, whole.S[off:off+n]...)})
			return
		}
		p := fr.val(st, x.X)
		fr.safety(st, "nil-deref", tNot(tEq(p.S[0], "0")), "load through "+x.X.Name()+" of type "+x.X.Type().String())
		v := vc.loadAt(st, p.S[0], p.S[1], x.Type())
		// name the loaded slots and assume their typing facts
		for i := range v.S {
			v.S[i] = vc.define(fmt.Sprintf("f%d.%s.%d", fr.id, x.Name(), i), vc.p.lay.of(x.Type()).Kinds[i].Sort(), v.S[i])
		}
		vc.assume(st, vc.wellTyped(st, v))
		fr.setVal(x, v)
	case token.NOT:
		fr.setVal(x, Val{S: []Term{tNot(fr.val(st, x.X).S[0])}})
	case token.SUB:
		v := fr.val(st, x.X)
		if vc.p.lay.of(x.Type()).Kinds[0] == KF {
			vc.declareUF("fneg", "(Flt) Flt")
			fr.setVal(x, Val{S: []Term{sx("fneg", v.S[0])}})
		} else {
			fr.setVal(x, Val{S: []Term{sx("-", v.S[0])}})
		}
	case token.XOR:
		fr.setVal(x, Val{S: []Term{sx("-", sx("-", fr.val(st, x.X).S[0]), "1")}})
	default:
		vc.reject("unary op %v", x.Op)
	}
}

func (fr *Frame) binop(st *State, op token.Token, a, b Val, rt types.Type) Val {
	vc := fr.vc
	lk := vc.p.lay.of(a.T)
	bl := func(t Term) Val { return Val{T: rt, S: []Term{t}} }
	// comparison of multi-slot or non-int values
	switch op {
	case token.EQL, token.NEQ:
		eq := fr.valuesEqual(st, a, b)
		if op == token.NEQ {
			eq = tNot(eq)
		}
		return bl(eq)
	}
	k := lk.Kinds[0]
	x, y := a.S[0], b.S[0]
	switch k {
	case KS:
		switch op {
		case token.ADD:
			return bl(sx("sconcat", x, y))
		case token.LSS:
			return bl(sx("slt", x, y))
		case token.GTR:
			return bl(sx("slt", y, x))
		case token.LEQ:
			return bl(tNot(sx("slt", y, x)))
		case token.GEQ:
			return bl(tNot(sx("slt", x, y)))
		}
	case KB:
		switch op {
		case token.AND, token.LAND:
			return bl(tAnd(x, y))
		case token.OR, token.LOR:
			return bl(tOr(x, y))
		}
	case KF:
		switch op {
		case token.ADD, token.SUB, token.MUL, token.QUO:
			name := map[token.Token]string{token.ADD: "fadd", token.SUB: "fsub", token.MUL: "fmul", token.QUO: "fdiv"}[op]
			vc.declareUF(name, "(Flt Flt) Flt")
			return bl(sx(name, x, y))
		case token.LSS, token.GTR, token.LEQ, token.GEQ:
			vc.declareUF("flt", "(Flt Flt) Bool")
			vc.declareUF("fle", "(Flt Flt) Bool")
			switch op {
			case token.LSS:
				return bl(sx("flt", x, y))
			case token.GTR:
				return bl(sx("flt", y, x))
			case token.LEQ:
				return bl(sx("fle", x, y))
			default:
				return bl(sx("fle", y, x))
			}
		}
	case KI:
		wrap := func(t Term) Val {
			if un, bits := isUnsigned(rt); un {
				return bl(sx("mod", t, pow2(bits)))
			}
			return bl(t)
		}
		switch op {
		case token.ADD:
			return wrap(sx("+", x, y))
		case token.SUB:
			return wrap(sx("-", x, y))
		case token.MUL:
			return wrap(sx("*", x, y))
		case token.QUO:
			fr.safety(st, "div-zero", tNot(tEq(y, "0")), "integer division")
			q := vc.define("quo", "Int", sx("godiv", x, y))
			// linear facts about truncated division (the solvers do not derive them)
			vc.assume(st, tImp(tAnd(tLe("0", x), tLt("0", y)), tAnd(tLe("0", q), tLe(q, x), tImp(tLe(y, x), tLe("1", q)), tImp(tLt(x, y), tEq(q, "0")))))
			return bl(q)
		case token.REM:
			fr.safety(st, "div-zero", tNot(tEq(y, "0")), "integer remainder")
			r := vc.define("rem", "Int", sx("gorem", x, y))
			vc.assume(st, tAnd(
				tImp(tAnd(tLe("0", x), tLt("0", y)), tAnd(tLe("0", r), tLt(r, y), tLe(r, x))),
				tImp(tAnd(tLe("0", x), tLt(y, "0")), tAnd(tLe("0", r), tLt(r, sx("-", y)))),
				tImp(tAnd(tLe(x, "0"), tLt("0", y)), tAnd(tLe(r, "0"), tLt(sx("-", y), r))),
				tImp(tAnd(tLe(x, "0"), tLt(y, "0")), tAnd(tLe(r, "0"), tLt(y, r)))))
			return bl(r)
		case token.LSS:
			return bl(tLt(x, y))
		case token.GTR:
			return bl(tLt(y, x))
		case token.LEQ:
			return bl(tLe(x, y))
		case token.GEQ:
			return bl(tLe(y, x))
		case token.SHL, token.SHR, token.AND, token.OR, token.XOR, token.AND_NOT:
			name := map[token.Token]string{token.SHL: "bshl", token.SHR: "bshr", token.AND: "band", token.OR: "bor", token.XOR: "bxor", token.AND_NOT: "bandnot"}[op]
			if name == "band" && !vc.uf["band"] {
				vc.declareUF(name, "(Int Int) Int")
				// x & y with a non-negative operand lies between 0 and that operand
				vc.decls = append(vc.decls,
					"(assert (forall ((x Int) (y Int)) (! (=> (<= 0 y) (and (<= 0 (band x y)) (<= (band x y) y))) :pattern ((band x y)))))",
					"(assert (forall ((x Int) (y Int)) (! (=> (<= 0 x) (and (<= 0 (band x y)) (<= (band x y) x))) :pattern ((band x y)))))")
			}
			vc.declareUF(name, "(Int Int) Int")
			return bl(sx(name, x, y))
		}
	}
	vc.reject("binop %v on %v", op, a.T)
	return Val{}
}

// valuesEqual encodes Go == on two values of the same static type.
func (fr *Frame) valuesEqual(st *State, a, b Val) Term {
	vc := fr.vc
	t := a.T
	if _, isNil := b.T.(*types.Basic); isNil && len(a.S) != len(b.S) {
		b = vc.zeroVal(a.T)
	}
	if _, isNil := a.T.(*types.Basic); isNil && len(a.S) != len(b.S) {
		a = vc.zeroVal(b.T)
		t = b.T
	}
	if len(a.S) != len(b.S) {
		vc.reject("comparison of values with different layouts: %v vs %v", a.T, b.T)
	}
	switch types.Unalias(t).Underlying().(type) {
	case *types.Interface, *types.TypeParam:
		// nil comparisons are exact; otherwise identity implies equality and
		// equality implies equal dynamic types
		if b.S[0] == "0" {
			return tEq(a.S[0], "0")
		}
		if a.S[0] == "0" {
			return tEq(b.S[0], "0")
		}
		ident := tAnd(tEq(a.S[0], b.S[0]), tEq(a.S[1], b.S[1]), tEq(a.S[2], b.S[2]))
		u := vc.fresh("ifaceeq", "Bool")
		vc.assumeRaw(tImp(u, tEq(a.S[0], b.S[0])))
		vc.assumeRaw(tImp(ident, u))
		return u
	case *types.Slice:
		// Go code compares slices with nil only; specifications compare headers
		if b.S[0] == "0" || a.S[0] == "0" {
			return tEq(a.S[0], b.S[0])
		}
		return tAnd(tEq(a.S[0], b.S[0]), tEq(a.S[1], b.S[1]), tEq(a.S[2], b.S[2]))
	case *types.Map, *types.Signature:
		return tEq(a.S[0], b.S[0])
	}
	var cs []Term
	for i := range a.S {
		cs = append(cs, tEq(a.S[i], b.S[i]))
	}
	return tAnd(cs...)
}

func (fr *Frame) makeInterface(st *State, v Val, from types.Type) Val {
	vc := fr.vc
	from = types.Unalias(from)
	if _, ok := from.Underlying().(*types.Interface); ok {
		return Val{S: v.S}
	}
	tid := tInt(int64(vc.p.typeID(from)))
	if _, ok := from.Underlying().(*types.Pointer); ok {
		return Val{S: []Term{tid, v.S[0], v.S[1]}}
	}
	// single integer-like slot (ints, maps, channels): the value itself is the
	// payload, so equal values give equal interface values
	if ks := vc.p.lay.of(from).Kinds; len(ks) == 1 && ks[0] == KI {
		return Val{S: []Term{tid, v.S[0], "0"}}
	}
	// box the value in a fresh immutable cell
	r := vc.newObject(st, "box", nil, vc.p.lay.of(from).Kinds)
	if vc.boxedType == nil {
		vc.boxedType = map[string]types.Type{}
	}
	vc.boxedType[r] = from
	v.T = from
	vc.storeAt(st, r, "0", v)
	return Val{S: []Term{tid, r, "0"}}
}

func (fr *Frame) convert(st *State, v Val, from, to types.Type) Val {
	vc := fr.vc
	fk := vc.p.lay.of(from).Kinds
	tk := vc.p.lay.of(to).Kinds
	if len(fk) == 1 && len(tk) == 1 {
		switch {
		case fk[0] == KI && tk[0] == KI:
			fb, tb := intBits(from), intBits(to)
			fu, _ := isUnsigned(from)
			tu, _ := isUnsigned(to)
			if tb >= fb && fu == tu || (tb > fb && fu && !tu) {
				return Val{S: v.S}
			}
			if tu {
				return Val{S: []Term{sx("mod", v.S[0], pow2(tb))}}
			}
			// narrowing to signed: wrap into range
			h := pow2(tb - 1)
			return Val{S: []Term{sx("-", sx("mod", sx("+", v.S[0], h), pow2(tb)), h)}}
		case fk[0] == KI && tk[0] == KF:
			return Val{S: []Term{sx("i2f", v.S[0])}}
		case fk[0] == KF && tk[0] == KI:
			r := sx("f2i", v.S[0])
			return Val{S: []Term{r}}
		case fk[0] == KF && tk[0] == KF:
			if intBitsF(from) == intBitsF(to) {
				return Val{S: v.S}
			}
			vc.declareUF("fcvt32", "(Flt) Flt")
			if intBitsF(to) == 32 {
				return Val{S: []Term{sx("fcvt32", v.S[0])}}
			}
			return Val{S: v.S}
		case fk[0] == KS && tk[0] == KS:
			return Val{S: v.S}
		case fk[0] == KI && tk[0] == KS:
			vc.declareUF("rune2str", "(Int) Str")
			return Val{S: []Term{sx("rune2str", v.S[0])}}
		}
	}
	// string <-> []byte / []rune, pointer conversions
	if len(tk) == 4 && len(fk) == 1 && fk[0] == KS {
		r := vc.newObject(st, "bytes", to, []Kind{KI})
		ln := sx("slen", v.S[0])
		if el := to.Underlying().(*types.Slice).Elem(); intBits(el) == 8 {
			h := vc.get(st, vc.heapKey(KI))
			vc.assume(st, fmt.Sprintf("(forall ((i!q Int)) (! (=> (and (<= 0 i!q) (< i!q %s)) (= (select (select %s %s) i!q) (sbyte %s i!q))) :pattern ((select (select %s %s) i!q))))", ln, h, r, v.S[0], h, r))
			return Val{S: []Term{r, "0", ln, ln}}
		}
		n := vc.fresh("runes", "Int")
		vc.assume(st, tAnd(tLe("0", n), tLe(n, ln)))
		return Val{S: []Term{r, "0", n, n}}
	}
	if len(fk) == 4 && len(tk) == 1 && tk[0] == KS {
		s := vc.fresh("str", "Str")
		if el := from.Underlying().(*types.Slice).Elem(); intBits(el) == 8 {
			h := vc.get(st, vc.heapKey(KI))
			vc.assume(st, tEq(sx("slen", s), v.S[2]))
			vc.assume(st, fmt.Sprintf("(forall ((i!q Int)) (! (=> (and (<= 0 i!q) (< i!q %s)) (= (sbyte %s i!q) (select (select %s %s) (+ %s i!q)))) :pattern ((sbyte %s i!q))))", v.S[2], s, h, v.S[0], v.S[1], s))
		}
		return Val{S: []Term{s}}
	}
	if len(fk) == len(tk) {
		return Val{S: v.S}
	}
	vc.reject("conversion %v -> %v", from, to)
	return Val{}
}

func intBitsF(t types.Type) int {
	if b, ok := t.Underlying().(*types.Basic); ok {
		switch b.Kind() {
		case types.Float32:
			return 32
		case types.Float64, types.UntypedFloat:
			return 64
		}
	}
	return 0
}

func (fr *Frame) execLookup(st *State, x *ssa.Lookup) {
	vc := fr.vc
	base := fr.val(st, x.X)
	k := fr.val(st, x.Index)
	switch u := x.X.Type().Underlying().(type) {
	case *types.Basic:
		fr.safety(st, "index", tAnd(tLe("0", k.S[0]), tLt(k.S[0], sx("slen", base.S[0]))), "string index")
		fr.setVal(x, Val{S: []Term{sx("sbyte", base.S[0], k.S[0])}})
	case *types.Map:
		k.T = u.Key()
		v, has := vc.mapGet(st, base.S[0], k, u.Elem())
		vc.assume(st, tImp(has, vc.wellTyped(st, v)))
		if x.CommaOk {
			fr.setVal(x, Val{S: append(append([]Term{}, v.S...), has)})
		} else {
			fr.setVal(x, v)
		}
	default:
		vc.reject("Lookup on %v", x.X.Type())
	}
}

func (fr *Frame) execSlice(st *State, x *ssa.Slice) {
	vc := fr.vc
	base := fr.val(st, x.X)
	var lo, hi, mx Term
	if x.Low != nil {
		lo = fr.val(st, x.Low).S[0]
	} else {
		lo = "0"
	}
	switch u := x.X.Type().Underlying().(type) {
	case *types.Basic: // string
		if x.High != nil {
			hi = fr.val(st, x.High).S[0]
		} else {
			hi = sx("slen", base.S[0])
		}
		fr.safety(st, "slice-bounds", tAnd(tLe("0", lo), tLe(lo, hi), tLe(hi, sx("slen", base.S[0]))), "string slice bounds")
		fr.setVal(x, Val{S: []Term{sx("ssub", base.S[0], lo, hi)}})
	case *types.Slice:
		es := vc.p.lay.size(u.Elem())
		if x.High != nil {
			hi = fr.val(st, x.High).S[0]
		} else {
			hi = base.S[2]
		}
		if x.Max != nil {
			mx = fr.val(st, x.Max).S[0]
		} else {
			mx = base.S[3]
		}
		fr.safety(st, "slice-bounds", tAnd(tLe("0", lo), tLe(lo, hi), tLe(hi, mx), tLe(mx, base.S[3])), "slice bounds")
		fr.setVal(x, Val{S: []Term{base.S[0], vc.elemOff(base.S[1], lo, es), tSub(hi, lo), tSub(mx, lo)}})
	case *types.Pointer:
		arr := u.Elem().Underlying().(*types.Array)
		es := vc.p.lay.size(arr.Elem())
		if x.High != nil {
			hi = fr.val(st, x.High).S[0]
		} else {
			hi = tInt(arr.Len())
		}
		mx = tInt(arr.Len())
		fr.setVal(x, Val{S: []Term{base.S[0], vc.elemOff(base.S[1], lo, es), tSub(hi, lo), tSub(mx, lo)}})
	default:
		vc.reject("Slice on %v", x.X.Type())
	}
}

func (fr *Frame) execTypeAssert(st *State, x *ssa.TypeAssert) {
	vc := fr.vc
	v := fr.val(st, x.X)
	at := types.Unalias(x.AssertedType)
	var ok Term
	var res Val
	if _, isIface := at.Underlying().(*types.Interface); isIface {
		// implements: unknown predicate of the dynamic type
		name := fmt.Sprintf("impl_%d", vc.p.typeID(at))
		vc.declareUF(name, "(Int) Bool")
		ok = tAnd(tNot(tEq(v.S[0], "0")), sx(name, v.S[0]))
		if src, isI := x.X.Type().Underlying().(*types.Interface); isI && types.Implements(src, at.Underlying().(*types.Interface)) {
			ok = tNot(tEq(v.S[0], "0"))
		}
		res = Val{T: at, S: v.S}
	} else {
		ok = tEq(v.S[0], tInt(int64(vc.p.typeID(at))))
		if _, isPtr := at.Underlying().(*types.Pointer); isPtr {
			res = Val{T: at, S: []Term{v.S[1], v.S[2]}}
		} else if ks := vc.p.lay.of(at).Kinds; len(ks) == 1 && ks[0] == KI {
			res = Val{T: at, S: []Term{v.S[1]}}
		} else {
			res = vc.loadAt(st, v.S[1], v.S[2], at)
		}
	}
	if x.CommaOk {
		z := vc.zeroVal(at)
		out := Val{}
		for i := range res.S {
			out.S = append(out.S, tIte(ok, res.S[i], z.S[i]))
		}
		out.S = append(out.S, ok)
		fr.setVal(x, out)
		return
	}
	fr.safety(st, "type-assert", ok, "type assertion")
	vc.assume(st, vc.wellTyped(st, res))
	fr.setVal(x, res)
}

// ---------------------------------------------------------------------------
// range over maps

func (fr *Frame) rangeKey(r *ssa.Range) string { return fmt.Sprintf("f%d:R:%s", fr.id, r.Name()) }

func (fr *Frame) execRange(st *State, x *ssa.Range) {
	vc := fr.vc
	mt, ok := x.X.Type().Underlying().(*types.Map)
	if !ok {
		vc.reject("range over %v (only maps are iterated through Range)", x.X.Type())
	}
	ks, _ := vc.keySortOf(mt.Key())
	key := fr.rangeKey(x)
	vc.ensureKey(key, fmt.Sprintf("(Array %s Bool)", ks))
	st.v[key] = fmt.Sprintf("((as const (Array %s Bool)) false)", ks)
	// snapshot of the domain at loop entry
	dk := fr.rangeKey(x) + ":dom0"
	vc.ensureKey(dk, fmt.Sprintf("(Array %s Bool)", ks))
	m := fr.val(st, x.X)
	st.v[dk] = vc.define("dom0", fmt.Sprintf("(Array %s Bool)", ks), tSel(vc.get(st, vc.mapDomKey(mt.Key())), m.S[0]))
	fr.vals[x] = Val{T: x.Type(), S: nil}
}

func (fr *Frame) execNext(st *State, x *ssa.Next) {
	vc := fr.vc
	rg, ok := x.Iter.(*ssa.Range)
	if !ok || x.IsString {
		vc.reject("next over non-map iterator")
	}
	mt := rg.X.Type().Underlying().(*types.Map)
	ks, _ := vc.keySortOf(mt.Key())
	m := fr.val(st, rg.X).S[0]
	seenKey := fr.rangeKey(rg)
	seen := st.v[seenKey]
	dom0 := st.v[fr.rangeKey(rg)+":dom0"]
	domNow := tSel(vc.get(st, vc.mapDomKey(mt.Key())), m)
	okT := vc.fresh(fmt.Sprintf("f%d.%s.ok", fr.id, x.Name()), "Bool")
	k := vc.freshVal(fmt.Sprintf("f%d.%s.k", fr.id, x.Name()), mt.Key())
	kt := vc.keyTerm(k)
	vc.assume(st, tImp(okT, tAnd(tSel(domNow, kt), tNot(tSel(seen, kt)), vc.wellTyped(st, k))))
	vc.assume(st, tImp(tNot(okT), fmt.Sprintf("(forall ((k!q %s)) (! (=> (and (select %s k!q) (select %s k!q)) (select %s k!q)) :pattern ((select %s k!q)) :pattern ((select %s k!q))))", ks, dom0, domNow, seen, seen, domNow)))
	v := vc.mapGetRaw(st, m, k, mt.Elem())
	for i := range v.S {
		v.S[i] = vc.define(fmt.Sprintf("f%d.%s.v%d", fr.id, x.Name(), i), vc.p.lay.of(mt.Elem()).Kinds[i].Sort(), v.S[i])
	}
	vc.assume(st, tImp(okT, vc.wellTyped(st, v)))
	st.v[seenKey] = tIte(okT, tSto(seen, kt, tTrue), seen)
	// result tuple (ok, k, v) typed by x.Type()
	tp := x.Type().(*types.Tuple)
	out := Val{S: []Term{okT}}
	if vc.p.lay.size(tp.At(1).Type()) > 0 {
		out.S = append(out.S, k.S...)
	}
	if vc.p.lay.size(tp.At(2).Type()) > 0 {
		out.S = append(out.S, v.S...)
	}
	fr.setVal(x, out)
}

// ---------------------------------------------------------------------------
// defers

func (fr *Frame) deferKey(d *ssa.Defer) string {
	for i, x := range fr.defers {
		if x == d {
			return fmt.Sprintf("f%d:D:%d", fr.id, i)
		}
	}
	panic("defer")
}

func (fr *Frame) execDefer(st *State, d *ssa.Defer) {
	vc := fr.vc
	for _, li := range fr.loops {
		if li.blocks[d.Block()] {
			vc.reject("defer inside a loop")
		}
	}
	key := fr.deferKey(d)
	vc.ensureKey(key+":on", "Bool")
	st.v[key+":on"] = tTrue
	// snapshot callee value and arguments
	args := fr.callArgs(st, &d.Call)
	for i, a := range args {
		lay := vc.p.lay.of(a.T)
		for j, k := range lay.Kinds {
			kk := fmt.Sprintf("%s:a%d:%d", key, i, j)
			vc.ensureKey(kk, k.Sort())
			st.v[kk] = a.S[j]
		}
	}
}

func (fr *Frame) runDefers(st *State) {
	vc := fr.vc
	for i := len(fr.defers) - 1; i >= 0; i-- {
		d := fr.defers[i]
		key := fr.deferKey(d)
		on, ok := st.v[key+":on"]
		if !ok || on == tFalse {
			continue
		}
		args0 := fr.callArgs(nil, &d.Call) // types only
		var args []Val
		for ai, a := range args0 {
			lay := vc.p.lay.of(a.T)
			v := Val{T: a.T}
			for j := range lay.Kinds {
				v.S = append(v.S, st.v[fmt.Sprintf("%s:a%d:%d", key, ai, j)])
			}
			args = append(args, v)
		}
		if on == tTrue {
			fr.callWith(st, &d.Call, args, d)
			continue
		}
		// conditionally registered defer: run on a copy and merge
		yes := st.with(on)
		no := st.with(tNot(on))
		fr.callWith(yes, &d.Call, args, d)
		m := vc.merge(fmt.Sprintf("f%d.defer%d", fr.id, i), []edgeIn{{pred: d.Block(), st: yes}, {pred: d.Block(), st: no}})
		st.pc = m.pc
		st.v = m.v
	}
}

var _ = strings.Contains

// checkGlobalInvs: in a package initializer, every global invariant that
// mentions g must hold right after a store to g.
func (fr *Frame) checkGlobalInvs(st *State, g *ssa.Global) {
	vc := fr.vc
	for _, gi := range vc.p.globalInvs {
		if fr.fn.Pkg == nil || !gi.inPkg(fr.fn.Pkg.Pkg) {
			continue
		}
		names := map[string]bool{}
		globalsIn(gi.Clause.Expr, names)
		if !names[g.Name()] {
			continue
		}
		env := fr.specEnv(st, nil)
		fr.callOrd["ginv:"+gi.Clause.Label]++
		name := fmt.Sprintf("%s/global-invariant[%s]@store[%s#%d]", vc.fnKey, gi.Clause.Label, g.Name(), fr.callOrd["ginv:"+gi.Clause.Label])
		vc.oblige(st, name, "ensures", env.evalBool(gi.Clause.Expr), gi.Clause.Text)
	}
}

// safeSelected: `safe` without arguments checks every implicit panic; `safe
// pat1 pat2` only those whose description mentions one of the patterns (e.g. a
// pointer type).
func safeSelected(ct *Contract, what string) bool {
	if len(ct.SafeOnly) == 0 {
		return true
	}
	for _, p := range ct.SafeOnly {
		if strings.Contains(what, p) {
			return true
		}
	}
	return false
}
