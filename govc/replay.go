package main

// Replay of candidate counterexamples on the real code.  A replay driver is a
// Go test file under /verif/replay_drivers/<prop>/ named after the function
// (sanitized key); it is injected into the function's package with
// `go test -overlay` (nothing is written to the repository), receives the
// model values through the environment variable VERIF_MODEL (JSON object:
// SMT constant name -> value) and VERIF_OBLIGATION, and prints
// REPLAY-CONFIRMED when the violated clause is observed on the real code.

import (
	"bytes"
	"context"
	"encoding/json"
	"fmt"
	"os"
	"os/exec"
	"path/filepath"
	"regexp"
	"strings"
	"time"
)

var defineFunRe = regexp.MustCompile(`(?s)\(define-fun\s+(\S+)\s+\(\)\s+(\S+)\s+(.*?)\)\s*(?:\(define-fun|\z)`)

// parseModel extracts scalar constants from a z3 model.
func parseModel(m string) map[string]string {
	out := map[string]string{}
	lines := strings.Split(m, "\n")
	for i := 0; i < len(lines); i++ {
		l := strings.TrimSpace(lines[i])
		if !strings.HasPrefix(l, "(define-fun ") {
			continue
		}
		f := strings.Fields(l)
		if len(f) < 4 || f[2] != "()" {
			continue
		}
		name := f[1]
		sort := f[3]
		if sort != "Int" && sort != "Bool" {
			continue
		}
		val := ""
		if len(f) > 4 {
			val = strings.Join(f[4:], " ")
		} else if i+1 < len(lines) {
			val = strings.TrimSpace(lines[i+1])
		}
		val = strings.TrimSuffix(strings.TrimSpace(val), ")")
		val = strings.TrimSpace(val)
		if strings.HasPrefix(val, "(- ") {
			val = "-" + strings.TrimSuffix(strings.TrimPrefix(val, "(- "), ")")
		}
		out[name] = val
	}
	return out
}

var replayCache = map[string]string{}

func tryReplay(p *Prog, vdir, prop string, o *Obligation, vc *VC, rdir string) string {
	driver := filepath.Join(vdir, "replay_drivers", prop, sanitizeFile(o.Func)+"_test.go")
	if _, err := os.Stat(driver); err != nil {
		return ""
	}
	if r, ok := replayCache[driver]; ok {
		return r + "\n(driver run once per check; result shared by the obligations of this function)"
	}
	r := tryReplay1(p, vdir, prop, o, vc, rdir, driver)
	replayCache[driver] = r
	return r
}

func tryReplay1(p *Prog, vdir, prop string, o *Obligation, vc *VC, rdir string, driver string) string {
	// package directory of the function
	fn := p.allFuncs()[baseKey(o.Func)]
	if fn == nil {
		return ""
	}
	pos := p.fset.Position(fn.Pos())
	pkgDir := filepath.Dir(pos.Filename)
	model := parseModel(o.Result.Model)
	mj, _ := json.Marshal(model)
	ov := map[string]map[string]string{"Replace": {filepath.Join(pkgDir, "zz_verif_replay_test.go"): driver}}
	ovj, _ := json.Marshal(ov)
	ovFile := filepath.Join(rdir, sanitizeFile(o.Name)+".overlay.json")
	os.WriteFile(ovFile, ovj, 0o644)
	ctx, cancel := context.WithTimeout(context.Background(), 120*time.Second)
	defer cancel()
	cmd := exec.CommandContext(ctx, "go", "test", "-overlay", ovFile, "-vet=off", "-timeout", "60s", "-count=1", "-run", "^TestVerifReplay$", "-v", ".")
	cmd.Dir = pkgDir
	cmd.Env = append(os.Environ(), "GOFLAGS=-mod=mod", "GOPROXY=off", "GOSUMDB=off", "GOTOOLCHAIN=local",
		"VERIF_MODEL="+string(mj), "VERIF_OBLIGATION="+o.Name)
	var ob bytes.Buffer
	cmd.Stdout = &ob
	cmd.Stderr = &ob
	err := cmd.Run()
	out := ob.String()
	if len(out) > 4000 {
		out = out[len(out)-4000:]
	}
	return fmt.Sprintf("driver: %s\nmodel: %s\nexit: %v\n%s", driver, string(mj), err, out)
}
