package main

// Contract files (//@ lines in zz_verif_contracts.go) and the specification
// expression parser.

import (
	"fmt"
	"go/types"
	"os"
	"path/filepath"
	"strconv"
	"strings"
	"unicode"
)

type Clause struct {
	Label string
	Text  string
	Expr  SExpr
	Line  int
	File  string
}

type LoopSpec struct {
	Steps      []*Clause // per-iteration postconditions checked at every back edge ($head(e) = e at iteration start)
	Entry      []*Clause // asserted when the loop is entered (state after the code before it)
	Assumes    []*Clause // trusted facts of every iteration (representation invariants of other types)
	Invariants []*Clause
	Modifies   []SExpr
	Writes     []string // source-level outer locals the loop may assign (syntactic obligation)
	HasWrites  bool
}

type CallAssert struct {
	Callee string // callee key or suffix
	Ord    int    // 1-based, 0 = every call
	Clause *Clause
	Used   bool
	// InHelpers: the function under contract has no call site of its own that the
	// pattern can match, so the assertion applies to the matching call inside a
	// callee expanded in place (code moved into a small helper)
	InHelpers bool
}

type Contract struct {
	Key              string
	File             string
	Line             int
	Extern           bool // trusted: never verified, only used at call sites
	Pure             bool
	Inline           bool
	StoreAfter       [][2]string // (field, callee pattern): every store to the field is dominated by a call of the callee
	Guarded          [][2]string // (field, mutex field): the field is accessed only while the mutex is held
	AssumePre        []string    // callee key patterns whose preconditions are assumed at call sites (trusted)
	MapRangeCollects bool        // syntactic: a loop that ranges over a map calls nothing (it only collects keys/values)
	NoMapRange       bool        // syntactic obligation: the function does not iterate over a map
	Getter           bool        // result is a function of receiver and arguments only; no effects (trusted)
	Preserves        []string    // type names whose objects keep their content (used with an unspecified/heap footprint)
	Safe             bool
	SafeOnly         []string // restrict safety obligations to descriptions mentioning one of these
	Requires         []*Clause
	Assumes          []*Clause // representation invariants assumed at entry (not checked at call sites; trusted)
	Ensures          []*Clause
	Lemmas           map[*Clause]bool // ensures that are checked but not exported to callers (may mention locals)
	Modifies         []SExpr          // nil = unspecified (anything)
	HasMod           bool
	Loops            map[int]*LoopSpec
	CallAsrt         []*CallAssert
	Lets             map[string]SExpr
	Props            []string // property ids this contract serves
	Used             bool
	NoBody           bool // contract on interface method
	ParamName        []string
}

type SpecFunc struct {
	Name    string
	Params  []SParam
	Result  string
	Body    SExpr  // nil = uninterpreted ghost function
	PkgPath string // import path of the package whose contract file declares it
	File    string
	Line    int
}

type SParam struct{ Name, Type string }

// GlobalInv is an invariant over package-level variables: proved of the
// package initializer, assumed at the entry of every function of the package
// (a syntactic scan shows that nothing else stores to the variables).
type GlobalInv struct {
	Pkg    string // package name
	Dir    string // directory of the contract file relative to the repository (distinguishes packages of the same name)
	Clause *Clause
}

// inPkg: the invariant belongs to this package (same name and same directory).
func (gi *GlobalInv) inPkg(pk *types.Package) bool {
	if pk == nil || pk.Name() != gi.Pkg {
		return false
	}
	return gi.Dir == "" || gi.Dir == "." || strings.HasSuffix(pk.Path(), gi.Dir)
}

// ---------------------------------------------------------------------------
// expression AST

type SExpr interface{}

type (
	SIdent struct{ Name string }
	SInt   struct{ V string }
	SStr   struct{ V string }
	SBool  struct{ V bool }
	SNil   struct{}
	SBin   struct {
		Op   string
		L, R SExpr
	}
	SUn struct {
		Op string
		X  SExpr
	}
	SCall struct {
		Fun  SExpr
		Args []SExpr
	}
	SSel struct {
		X    SExpr
		Name string
	}
	SIndex struct{ X, I SExpr }
	SSlice struct{ X, Lo, Hi SExpr }
	SQuant struct {
		Forall bool
		Vars   []SParam
		Body   SExpr
	}
	SCond struct{ C, A, B SExpr }
	SStar struct{} // the [*] / .* wildcard in modifies targets
)

type lexer struct {
	s    string
	pos  int
	tok  string
	kind byte // 'i' ident, 'n' number, 's' string, 'o' operator, 0 eof
}

func (l *lexer) next() {
	for l.pos < len(l.s) && (l.s[l.pos] == ' ' || l.s[l.pos] == '\t' || l.s[l.pos] == '\n') {
		l.pos++
	}
	if l.pos >= len(l.s) {
		l.kind, l.tok = 0, ""
		return
	}
	c := l.s[l.pos]
	start := l.pos
	switch {
	case c == '$' || c == '_' || unicode.IsLetter(rune(c)):
		l.pos++
		for l.pos < len(l.s) && (l.s[l.pos] == '_' || l.s[l.pos] == '$' || unicode.IsLetter(rune(l.s[l.pos])) || unicode.IsDigit(rune(l.s[l.pos]))) {
			l.pos++
		}
		l.kind = 'i'
	case unicode.IsDigit(rune(c)):
		for l.pos < len(l.s) && unicode.IsDigit(rune(l.s[l.pos])) {
			l.pos++
		}
		l.kind = 'n'
	case c == '"':
		l.pos++
		for l.pos < len(l.s) && l.s[l.pos] != '"' {
			if l.s[l.pos] == '\\' {
				l.pos++
			}
			l.pos++
		}
		l.pos++
		l.kind = 's'
	default:
		ops := []string{"<==>", "==>", "::", "==", "!=", "<=", ">=", "&&", "||", "..."}
		l.kind = 'o'
		for _, o := range ops {
			if strings.HasPrefix(l.s[l.pos:], o) {
				l.pos += len(o)
				l.tok = o
				return
			}
		}
		l.pos++
	}
	l.tok = l.s[start:l.pos]
}

type parser struct {
	l   lexer
	err error
}

func parseExpr(s string) (e SExpr, err error) {
	p := &parser{l: lexer{s: s}}
	defer func() {
		if r := recover(); r != nil {
			if pe, ok := r.(parseErr); ok {
				err = fmt.Errorf("%s (in %q near offset %d)", string(pe), s, p.l.pos)
				return
			}
			panic(r)
		}
	}()
	p.l.next()
	e = p.expr(0)
	if p.l.kind != 0 {
		p.fail("unexpected token " + p.l.tok)
	}
	return e, nil
}

type parseErr string

func (p *parser) fail(msg string) { panic(parseErr(msg)) }

func (p *parser) expect(tok string) {
	if p.l.tok != tok {
		p.fail("expected " + tok + " got " + p.l.tok)
	}
	p.l.next()
}

var binPrec = map[string]int{
	"<==>": 1, "==>": 2, "||": 3, "&&": 4,
	"==": 5, "!=": 5, "<": 5, "<=": 5, ">": 5, ">=": 5,
	"+": 6, "-": 6, "*": 7, "/": 7, "%": 7,
}

func (p *parser) expr(min int) SExpr {
	lhs := p.unary()
	for {
		if p.l.kind == 'o' && p.l.tok == "?" && min <= 0 {
			p.l.next()
			a := p.expr(0)
			p.expect(":")
			b := p.expr(0)
			lhs = &SCond{lhs, a, b}
			continue
		}
		pr, ok := binPrec[p.l.tok]
		if !ok || p.l.kind != 'o' || pr < min {
			return lhs
		}
		op := p.l.tok
		p.l.next()
		var rhs SExpr
		if op == "==>" || op == "<==>" {
			rhs = p.expr(pr) // right associative
		} else {
			rhs = p.expr(pr + 1)
		}
		lhs = &SBin{op, lhs, rhs}
	}
}

func (p *parser) unary() SExpr {
	if p.l.kind == 'o' {
		switch p.l.tok {
		case "!", "-":
			op := p.l.tok
			p.l.next()
			return &SUn{op, p.unary()}
		case "*":
			p.l.next()
			return &SUn{"*", p.unary()}
		case "&":
			p.l.next()
			return &SUn{"&", p.unary()}
		}
	}
	return p.postfix(p.primary())
}

func (p *parser) primary() SExpr {
	switch p.l.kind {
	case 'n':
		v := p.l.tok
		p.l.next()
		return &SInt{v}
	case 's':
		v, err := strconv.Unquote(p.l.tok)
		if err != nil {
			p.fail("bad string literal " + p.l.tok)
		}
		p.l.next()
		return &SStr{v}
	case 'i':
		name := p.l.tok
		switch name {
		case "true", "false":
			p.l.next()
			return &SBool{name == "true"}
		case "nil":
			p.l.next()
			return &SNil{}
		case "forall", "exists":
			p.l.next()
			var vars []SParam
			for {
				if p.l.kind != 'i' {
					p.fail("quantifier: variable name expected")
				}
				vn := p.l.tok
				p.l.next()
				ty := p.typeText()
				vars = append(vars, SParam{vn, ty})
				if p.l.tok == "," {
					p.l.next()
					continue
				}
				break
			}
			p.expect("::")
			body := p.expr(0)
			return &SQuant{name == "forall", vars, body}
		}
		p.l.next()
		return &SIdent{name}
	case 'o':
		if p.l.tok == "(" {
			p.l.next()
			e := p.expr(0)
			p.expect(")")
			return e
		}
	}
	p.fail("unexpected token " + p.l.tok)
	return nil
}

// typeText reads a Go type up to "," or "::" (quantifier variable types).
func (p *parser) typeText() string {
	var b strings.Builder
	for p.l.kind != 0 && p.l.tok != "," && p.l.tok != "::" {
		b.WriteString(p.l.tok)
		p.l.next()
	}
	return b.String()
}

func (p *parser) postfix(e SExpr) SExpr {
	for p.l.kind == 'o' {
		switch p.l.tok {
		case ".":
			p.l.next()
			if p.l.tok == "*" {
				p.l.next()
				e = &SSel{e, "*"}
				continue
			}
			if p.l.kind != 'i' && p.l.kind != 'n' {
				p.fail("selector expected")
			}
			e = &SSel{e, p.l.tok}
			p.l.next()
		case "(":
			p.l.next()
			var args []SExpr
			for p.l.tok != ")" {
				args = append(args, p.expr(0))
				if p.l.tok == "," {
					p.l.next()
				} else if p.l.tok != ")" {
					p.fail("expected , or ) in call")
				}
			}
			p.l.next()
			e = &SCall{e, args}
		case "[":
			p.l.next()
			if p.l.tok == "*" {
				p.l.next()
				p.expect("]")
				e = &SIndex{e, &SStar{}}
				continue
			}
			var lo, hi SExpr
			if p.l.tok != ":" {
				lo = p.expr(0)
			}
			if p.l.tok == ":" {
				p.l.next()
				if p.l.tok != "]" {
					hi = p.expr(0)
				}
				p.expect("]")
				e = &SSlice{e, lo, hi}
				continue
			}
			p.expect("]")
			e = &SIndex{e, lo}
		default:
			return e
		}
	}
	return e
}

// ---------------------------------------------------------------------------
// contract file parsing

var clauseKeywords = map[string]bool{"requires": true, "assumes": true, "ensures": true, "lemma": true, "modifies": true, "loop": true, "at": true,
	"safe": true, "pure": true, "inline": true, "getter": true, "preserves": true, "no-map-range": true, "map-range-collects-only": true, "assume-pre": true, "guarded": true, "store": true, "end": true, "let": true, "props": true, "trusted": true}

// parseContractFile reads every //@ line of a file.
func (p *Prog) parseContractFile(file string) error {
	data, err := os.ReadFile(file)
	if err != nil {
		return err
	}
	type line struct {
		n int
		s string
	}
	var lines []line
	for i, l := range strings.Split(string(data), "\n") {
		t := strings.TrimSpace(l)
		if !strings.HasPrefix(t, "//@") {
			continue
		}
		t = strings.TrimSpace(t[3:])
		if t == "" || strings.HasPrefix(t, "//") {
			continue
		}
		if k := strings.Index(t, " // "); k >= 0 {
			t = strings.TrimSpace(t[:k])
		}
		lines = append(lines, line{i + 1, t})
	}
	short := file
	if strings.HasPrefix(file, p.repoDir+"/") {
		short = file[len(p.repoDir)+1:]
	}
	pkgName := ""
	for _, l := range strings.Split(string(data), "\n") {
		if strings.HasPrefix(l, "package ") {
			pkgName = strings.TrimSpace(strings.TrimPrefix(l, "package "))
			break
		}
	}
	qualify := func(key string) string {
		// "(*T).M" -> "(*pkg.T).M", "F" -> "pkg.F"; already qualified names are kept
		if pkgName == "" {
			return key
		}
		if strings.HasPrefix(key, "(") {
			end := strings.Index(key, ")")
			inner := key[1:end]
			star := ""
			if strings.HasPrefix(inner, "*") {
				star, inner = "*", inner[1:]
			}
			if !strings.Contains(inner, ".") {
				inner = pkgName + "." + inner
			}
			return "(" + star + inner + ")" + key[end+1:]
		}
		head := key
		if k := strings.Index(key, "$"); k >= 0 {
			head = key[:k]
		}
		if !strings.Contains(head, ".") {
			return pkgName + "." + key
		}
		return key
	}
	i := 0
	fail := func(n int, f string, a ...interface{}) error {
		return fmt.Errorf("%s:%d: %s", short, n, fmt.Sprintf(f, a...))
	}
	for i < len(lines) {
		l := lines[i]
		fields := strings.Fields(l.s)
		switch fields[0] {
		case "count":
			// count Label = key1, key2
			rest := strings.TrimSpace(strings.TrimPrefix(l.s, "count"))
			eq := strings.Index(rest, "=")
			if eq < 0 {
				return fail(l.n, "count: expected '='")
			}
			label := strings.TrimSpace(rest[:eq])
			for _, k := range strings.Split(rest[eq+1:], ",") {
				k = qualify(strings.TrimSpace(k))
				p.counts[label] = append(p.counts[label], k)
				p.countOf[k] = append(p.countOf[k], label)
			}
			i++
		case "spec", "ghost":
			// spec func name(a T, b U) R = expr   |  ghost func name(a T) R
			txt := l.s
			j := i + 1
			for j < len(lines) && !isBlockStart(lines[j].s) {
				txt += " " + lines[j].s
				j++
			}
			sf, err := parseSpecFunc(txt)
			if err != nil {
				return fail(l.n, "%v", err)
			}
			sf.File, sf.Line = short, l.n
			if strings.HasSuffix(short, ".go") {
				sf.PkgPath = repoMod + "/" + filepath.Dir(short)
			}
			if fields[0] == "ghost" && sf.Body != nil {
				return fail(l.n, "ghost func must not have a body")
			}
			p.specFuncs[sf.Name] = sf
			i = j
		case "global":
			// global invariant label: expr   (about package-level variables)
			txt := strings.TrimSpace(strings.TrimPrefix(l.s, "global"))
			if !strings.HasPrefix(txt, "invariant") {
				return fail(l.n, "expected 'global invariant'")
			}
			txt = strings.TrimSpace(strings.TrimPrefix(txt, "invariant"))
			j := i + 1
			for j < len(lines) && !isBlockStart(lines[j].s) {
				txt += " " + lines[j].s
				j++
			}
			label, body := splitLabel(txt)
			e, err := parseExpr(body)
			if err != nil {
				return fail(l.n, "%v", err)
			}
			p.globalInvs = append(p.globalInvs, &GlobalInv{Pkg: pkgName, Dir: filepath.Dir(short), Clause: &Clause{Label: label, Text: body, Expr: e, Line: l.n, File: short}})
			i = j
		case "func", "extern":
			ext := fields[0] == "extern"
			name := strings.TrimSpace(strings.TrimPrefix(strings.TrimSpace(strings.TrimPrefix(l.s, fields[0])), "func"))
			if ext {
				name = strings.TrimSpace(strings.TrimPrefix(strings.TrimSpace(strings.TrimPrefix(l.s, "extern")), "func"))
			}
			ct := &Contract{Key: qualify(name), File: short, Line: l.n, Extern: ext, Loops: map[int]*LoopSpec{}, Lets: map[string]SExpr{}}
			i++
			// gather clauses until "end"
			for {
				if i >= len(lines) {
					return fail(l.n, "contract of %s: missing end", name)
				}
				cl := lines[i]
				if cl.s == "end" {
					i++
					break
				}
				txt := cl.s
				j := i + 1
				for j < len(lines) && !clauseKeywords[strings.Fields(lines[j].s)[0]] {
					txt += " " + lines[j].s
					j++
				}
				if err := ct.addClause(txt, short, cl.n); err != nil {
					return fail(cl.n, "%v", err)
				}
				i = j
			}
			if old, dup := p.contracts[ct.Key]; dup {
				return fail(l.n, "duplicate contract for %s (first at %s:%d)", ct.Key, old.File, old.Line)
			}
			p.contracts[ct.Key] = ct
		default:
			return fail(l.n, "unknown block %q", fields[0])
		}
	}
	return nil
}

func isBlockStart(s string) bool {
	f := strings.Fields(s)
	switch f[0] {
	case "func", "extern", "spec", "ghost", "count", "lemma", "global":
		return true
	}
	return false
}

func splitLabel(s string) (label, rest string) {
	// "label: expr" where label is an identifier-ish token (letters, digits, -, _)
	k := strings.Index(s, ":")
	if k <= 0 || strings.HasPrefix(s[k:], "::") {
		return "", s
	}
	lab := strings.TrimSpace(s[:k])
	for _, c := range lab {
		if !(unicode.IsLetter(c) || unicode.IsDigit(c) || c == '-' || c == '_') {
			return "", s
		}
	}
	return lab, strings.TrimSpace(s[k+1:])
}

func (ct *Contract) addClause(txt, file string, line int) error {
	fields := strings.Fields(txt)
	kw := fields[0]
	rest := strings.TrimSpace(strings.TrimPrefix(txt, kw))
	mk := func(s string) (*Clause, error) {
		label, body := splitLabel(s)
		e, err := parseExpr(body)
		if err != nil {
			return nil, err
		}
		if label == "" {
			label = fmt.Sprintf("L%d", line)
		}
		return &Clause{Label: label, Text: body, Expr: e, Line: line, File: file}, nil
	}
	switch kw {
	case "safe":
		ct.Safe = true
		ct.SafeOnly = append(ct.SafeOnly, strings.Fields(rest)...)
	case "pure":
		ct.Pure = true
		ct.HasMod = true
	case "inline":
		ct.Inline = true
	case "map-range-collects-only":
		ct.MapRangeCollects = true
	case "no-map-range":
		ct.NoMapRange = true
	case "store":
		// store <field> after <callee pattern>: syntactic ordering obligation
		f := strings.Fields(rest)
		if len(f) != 3 || f[1] != "after" {
			return fmt.Errorf("store <field> after <callee>")
		}
		ct.StoreAfter = append(ct.StoreAfter, [2]string{f[0], f[2]})
	case "guarded":
		// guarded <field> by <mutex field>: lock discipline obligation at every access
		f := strings.Fields(rest)
		if len(f) != 3 || f[1] != "by" {
			return fmt.Errorf("guarded <field> by <mutex field>")
		}
		ct.Guarded = append(ct.Guarded, [2]string{f[0], f[2]})
	case "assume-pre":
		// assume-pre <callee pattern>...: preconditions of these callees are
		// assumed at their call sites in this function (trusted, reported)
		ct.AssumePre = append(ct.AssumePre, strings.Fields(rest)...)
	case "getter":
		ct.Getter = true
		ct.HasMod = true
	case "preserves":
		// preserves "T1", "T2": objects of these dynamic types are not modified
		for _, part := range strings.Split(rest, ",") {
			part = strings.Trim(strings.TrimSpace(part), "\"")
			if part != "" {
				ct.Preserves = append(ct.Preserves, part)
			}
		}
	case "trusted":
		ct.Extern = true
	case "props":
		ct.Props = strings.Fields(rest)
	case "requires":
		c, err := mk(rest)
		if err != nil {
			return err
		}
		ct.Requires = append(ct.Requires, c)
	case "assumes":
		c, err := mk(rest)
		if err != nil {
			return err
		}
		ct.Assumes = append(ct.Assumes, c)
	case "ensures", "lemma":
		c, err := mk(rest)
		if err != nil {
			return err
		}
		ct.Ensures = append(ct.Ensures, c)
		if kw == "lemma" {
			if ct.Lemmas == nil {
				ct.Lemmas = map[*Clause]bool{}
			}
			ct.Lemmas[c] = true
		}
	case "let":
		eq := strings.Index(rest, "=")
		if eq < 0 {
			return fmt.Errorf("let: expected '='")
		}
		e, err := parseExpr(rest[eq+1:])
		if err != nil {
			return err
		}
		ct.Lets[strings.TrimSpace(rest[:eq])] = e
	case "modifies":
		ct.HasMod = true
		ms, err := parseModifies(rest)
		if err != nil {
			return err
		}
		ct.Modifies = append(ct.Modifies, ms...)
	case "loop":
		// loop K invariant label: expr   |  loop K modifies targets
		if len(fields) < 3 {
			return fmt.Errorf("loop clause too short")
		}
		k, err := strconv.Atoi(fields[1])
		if err != nil {
			return fmt.Errorf("loop ordinal: %v", err)
		}
		ls := ct.Loops[k]
		if ls == nil {
			ls = &LoopSpec{}
			ct.Loops[k] = ls
		}
		body := strings.TrimSpace(strings.TrimPrefix(strings.TrimSpace(strings.TrimPrefix(rest, fields[1])), fields[2]))
		switch fields[2] {
		case "invariant":
			c, err := mk(body)
			if err != nil {
				return err
			}
			ls.Invariants = append(ls.Invariants, c)
		case "step":
			// checked at every back edge, not assumed: what one iteration does
			c, err := mk(body)
			if err != nil {
				return err
			}
			ls.Steps = append(ls.Steps, c)
		case "entry":
			// checked once, when the loop is entered; neither preserved nor assumed
			c, err := mk(body)
			if err != nil {
				return err
			}
			ls.Entry = append(ls.Entry, c)
		case "assumes":
			// trusted: assumed at the loop head of every iteration, never checked
			c, err := mk(body)
			if err != nil {
				return err
			}
			ls.Assumes = append(ls.Assumes, c)
		case "modifies":
			ms, err := parseModifies(body)
			if err != nil {
				return err
			}
			ls.Modifies = append(ls.Modifies, ms...)
		case "writes":
			ls.HasWrites = true
			for _, w := range strings.Split(body, ",") {
				if w = strings.TrimSpace(w); w != "" && w != "nothing" {
					ls.Writes = append(ls.Writes, w)
				}
			}
		default:
			return fmt.Errorf("loop clause kind %q", fields[2])
		}
	case "at":
		// at call <callee>#k assert label: expr
		if len(fields) < 5 || fields[1] != "call" || fields[3] != "assert" {
			return fmt.Errorf("expected: at call <callee>[#k] assert label: expr")
		}
		callee := fields[2]
		ord := 0
		if k := strings.Index(callee, "#"); k >= 0 {
			ord, _ = strconv.Atoi(callee[k+1:])
			callee = callee[:k]
		}
		idx := strings.Index(txt, " assert ")
		c, err := mk(strings.TrimSpace(txt[idx+8:]))
		if err != nil {
			return err
		}
		ct.CallAsrt = append(ct.CallAsrt, &CallAssert{Callee: callee, Ord: ord, Clause: c})
	default:
		return fmt.Errorf("unknown clause keyword %q", kw)
	}
	return nil
}

func parseModifies(s string) ([]SExpr, error) {
	s = strings.TrimSpace(s)
	if s == "nothing" {
		return []SExpr{}, nil
	}
	var out []SExpr
	depth := 0
	start := 0
	parts := []string{}
	for i := 0; i < len(s); i++ {
		switch s[i] {
		case '(', '[':
			depth++
		case ')', ']':
			depth--
		case ',':
			if depth == 0 {
				parts = append(parts, s[start:i])
				start = i + 1
			}
		}
	}
	parts = append(parts, s[start:])
	for _, pt := range parts {
		pt = strings.TrimSpace(pt)
		if pt == "" {
			continue
		}
		e, err := parseExpr(pt)
		if err != nil {
			return nil, err
		}
		out = append(out, e)
	}
	return out, nil
}

func parseSpecFunc(txt string) (*SpecFunc, error) {
	// spec func name(a T, b U) R = expr
	f := strings.Fields(txt)
	if len(f) < 3 || f[1] != "func" {
		return nil, fmt.Errorf("expected 'spec func' / 'ghost func'")
	}
	rest := strings.TrimSpace(txt[strings.Index(txt, "func")+4:])
	op := strings.Index(rest, "(")
	if op < 0 {
		return nil, fmt.Errorf("spec func: missing (")
	}
	name := strings.TrimSpace(rest[:op])
	depth, cp := 0, -1
	for i := op; i < len(rest); i++ {
		if rest[i] == '(' {
			depth++
		} else if rest[i] == ')' {
			depth--
			if depth == 0 {
				cp = i
				break
			}
		}
	}
	if cp < 0 {
		return nil, fmt.Errorf("spec func: unbalanced parentheses")
	}
	sf := &SpecFunc{Name: name}
	for _, ps := range strings.Split(rest[op+1:cp], ",") {
		ps = strings.TrimSpace(ps)
		if ps == "" {
			continue
		}
		k := strings.IndexAny(ps, " \t")
		if k < 0 {
			return nil, fmt.Errorf("spec func param %q needs a type", ps)
		}
		sf.Params = append(sf.Params, SParam{ps[:k], strings.TrimSpace(ps[k+1:])})
	}
	tail := strings.TrimSpace(rest[cp+1:])
	if eq := strings.Index(tail, "="); eq >= 0 && !strings.HasPrefix(tail[eq:], "==") {
		sf.Result = strings.TrimSpace(tail[:eq])
		e, err := parseExpr(tail[eq+1:])
		if err != nil {
			return nil, err
		}
		sf.Body = e
	} else {
		sf.Result = tail
	}
	if sf.Result == "" {
		sf.Result = "bool"
	}
	return sf, nil
}

// loadContracts parses every zz_verif_contracts*.go under the repo pkg tree
// and every *.spec file of the extern directory.
func (p *Prog) loadContracts(externDir string) error {
	var files []string
	filepath.Walk(p.repoDir, func(path string, info os.FileInfo, err error) error {
		if err == nil && !info.IsDir() && strings.HasPrefix(info.Name(), "zz_verif_contracts") && strings.HasSuffix(info.Name(), ".go") {
			files = append(files, path)
		}
		return nil
	})
	ext, _ := filepath.Glob(filepath.Join(externDir, "*.spec"))
	for _, f := range ext {
		if err := p.parseContractFile(f); err != nil {
			return err
		}
	}
	for _, c := range p.contracts {
		c.Extern = true
	}
	for _, f := range files {
		if err := p.parseContractFile(f); err != nil {
			return err
		}
	}
	return nil
}
