package main

// Loading /repo packages, building naive-form SSA, global tables.

import (
	"fmt"
	"go/token"
	"go/types"
	"os"
	"sort"
	"strings"

	"golang.org/x/tools/go/packages"
	"golang.org/x/tools/go/ssa"
	"golang.org/x/tools/go/ssa/ssautil"
)

var repoMod = "github.com/jcmoraisjr/haproxy-ingress"

type Prog struct {
	fset    *token.FileSet
	pkgs    []*packages.Package
	byPath  map[string]*packages.Package
	ssa     *ssa.Program
	lay     *layouter
	typeIDs map[string]int
	idTypes map[int]types.Type // dynamic type id -> the type of the object (for backing arrays: the element type)
	globals map[*ssa.Global]int
	embed   map[string]bool                  // type strings of struct types that occur by value inside other types
	holders map[string]map[string]types.Type // type string -> types that hold it by value (direct)

	contracts    map[string]*Contract // by function key
	specFuncs    map[string]*SpecFunc
	counts       map[string][]string // label -> callee keys
	countOf      map[string][]string // callee key -> labels
	byKey        map[string]*ssa.Function
	globalInvs   []*GlobalInv
	prot         []int
	effFree      map[*ssa.Function]bool
	reachMemo    map[*ssa.Function]int
	reachLabels  map[string]bool
	byMethodName map[string][]*ssa.Function
	protDone     bool
	repoDir      string
}

func loadProg(repoDir string, patterns []string) (*Prog, error) {
	cfg := &packages.Config{
		Mode:       packages.LoadAllSyntax | packages.NeedModule,
		Dir:        repoDir,
		BuildFlags: []string{"-tags=verif"},
		Env:        append(os.Environ(), "GOFLAGS=-mod=mod", "GOPROXY=off", "GOSUMDB=off", "GOTOOLCHAIN=local"),
	}
	pkgs, err := packages.Load(cfg, patterns...)
	if err != nil {
		return nil, err
	}
	nerr := 0
	packages.Visit(pkgs, nil, func(p *packages.Package) {
		for _, e := range p.Errors {
			if nerr < 10 {
				fmt.Fprintln(os.Stderr, "load error:", e)
			}
			nerr++
		}
	})
	if nerr > 0 {
		return nil, fmt.Errorf("%d package load errors", nerr)
	}
	if len(pkgs) > 0 && pkgs[0].Module != nil {
		repoMod = pkgs[0].Module.Path
	}
	sp, _ := ssautil.AllPackages(pkgs, ssa.NaiveForm|ssa.GlobalDebug)
	sp.Build()
	p := &Prog{
		fset: pkgs[0].Fset, pkgs: pkgs, ssa: sp, lay: newLayouter(),
		byPath:  map[string]*packages.Package{},
		typeIDs: map[string]int{}, idTypes: map[int]types.Type{}, globals: map[*ssa.Global]int{}, embed: map[string]bool{}, holders: map[string]map[string]types.Type{},
		contracts: map[string]*Contract{}, specFuncs: map[string]*SpecFunc{},
		counts: map[string][]string{}, countOf: map[string][]string{}, effFree: map[*ssa.Function]bool{},
		repoDir: repoDir,
	}
	packages.Visit(pkgs, nil, func(pk *packages.Package) {
		p.byPath[pk.PkgPath] = pk
		if pk.Types != nil {
			p.scanEmbed(pk.Types)
		}
	})
	return p, nil
}

// scanEmbed records struct types that appear by value as a field, array/slice
// element or map value of another type: pointers to such types may be interior.
func (p *Prog) scanEmbed(pk *types.Package) {
	sc := pk.Scope()
	for _, n := range sc.Names() {
		tn, ok := sc.Lookup(n).(*types.TypeName)
		if !ok {
			continue
		}
		p.scanType(tn.Type(), tn.Type().Underlying(), 0)
	}
}

func (p *Prog) scanType(holder types.Type, t types.Type, depth int) {
	if depth > 6 {
		return
	}
	mark := func(h types.Type, e types.Type) {
		e = types.Unalias(e)
		_, isSt := e.Underlying().(*types.Struct)
		_, isArr := e.Underlying().(*types.Array)
		if isSt || isArr {
			k := types.TypeString(e, nil)
			p.embed[k] = true
			if p.holders[k] == nil {
				p.holders[k] = map[string]types.Type{}
			}
			if h != nil {
				p.holders[k][types.TypeString(h, nil)] = h
			}
		}
	}
	switch u := t.(type) {
	case *types.Struct:
		for i := 0; i < u.NumFields(); i++ {
			ft := u.Field(i).Type()
			mark(holder, ft)
			if _, named := types.Unalias(ft).(*types.Named); !named {
				p.scanType(holder, ft.Underlying(), depth+1)
			}
		}
	case *types.Array:
		mark(holder, u.Elem())
		p.scanType(holder, u.Elem().Underlying(), depth+1)
	case *types.Slice:
		// elements live in a backing array whose dynamic type is the slice type
		mark(u, u.Elem())
		if _, named := types.Unalias(u.Elem()).(*types.Named); !named {
			p.scanType(u, u.Elem().Underlying(), depth+1)
		}
	case *types.Map:
		mark(nil, u.Elem())
		mark(nil, u.Key())
	case *types.Pointer:
		if _, named := types.Unalias(u.Elem()).(*types.Named); !named {
			p.scanType(u.Elem(), u.Elem().Underlying(), depth+1)
		}
	}
}

// offsetsOf: slot offsets at which a value of type t occurs by value inside a
// value of type h (t itself at offset 0).
func (p *Prog) offsetsOf(h, t types.Type, base, depth int) []int {
	if depth > 5 {
		return nil
	}
	if types.Identical(types.Unalias(h), types.Unalias(t)) {
		return []int{base}
	}
	var out []int
	switch u := h.Underlying().(type) {
	case *types.Struct:
		off := base
		for i := 0; i < u.NumFields(); i++ {
			ft := u.Field(i).Type()
			out = append(out, p.offsetsOf(ft, t, off, depth+1)...)
			off += p.lay.size(ft)
		}
	case *types.Array:
		es := p.lay.size(u.Elem())
		for i := 0; i < int(u.Len()) && i < 16; i++ {
			out = append(out, p.offsetsOf(u.Elem(), t, base+i*es, depth+1)...)
		}
	}
	return out
}

// holderTypes: every type whose objects may contain a T by value (T itself,
// direct and transitive holders); nil when unknown or too many.
func (p *Prog) holderTypes(t types.Type) []types.Type {
	t = types.Unalias(t)
	seen := map[string]types.Type{types.TypeString(t, nil): t}
	work := []string{types.TypeString(t, nil)}
	for len(work) > 0 {
		k := work[len(work)-1]
		work = work[:len(work)-1]
		hs, ok := p.holders[k]
		if !ok && k != types.TypeString(t, nil) {
			continue
		}
		for hk, h := range hs {
			if _, dup := seen[hk]; !dup {
				seen[hk] = h
				work = append(work, hk)
			}
		}
		if len(seen) > 12 {
			return nil
		}
	}
	var out []types.Type
	var ks []string
	for k := range seen {
		ks = append(ks, k)
	}
	sort.Strings(ks)
	for _, k := range ks {
		out = append(out, seen[k])
	}
	return out
}

// rootOnly reports whether a non-nil *T always points at offset 0 of an object
// whose dynamic type is T (T is never embedded by value anywhere).
func (p *Prog) rootOnly(t types.Type) bool {
	t = types.Unalias(t)
	if _, ok := t.Underlying().(*types.Struct); !ok {
		return false
	}
	if _, ok := t.(*types.Named); !ok {
		return false
	}
	if isNamed(t, "time", "Time") || isNamed(t, "sync", "Mutex") || isNamed(t, "sync", "RWMutex") {
		return false
	}
	return !p.embed[types.TypeString(t, nil)]
}

func (p *Prog) typeID(t types.Type) int {
	s := types.TypeString(types.Unalias(t), nil)
	if id, ok := p.typeIDs[s]; ok {
		return id
	}
	id := len(p.typeIDs) + 1
	p.typeIDs[s] = id
	p.idTypes[id] = types.Unalias(t)
	return id
}

// objID is the dynamic type id of the heap object a value of type t refers
// to: backing arrays of slices get an id of their own, distinct from the id of
// a cell that holds a slice header.
func (p *Prog) objID(t types.Type) int {
	if _, ok := types.Unalias(t).Underlying().(*types.Slice); ok {
		s := "backing " + types.TypeString(types.Unalias(t), nil)
		if id, ok := p.typeIDs[s]; ok {
			return id
		}
		id := len(p.typeIDs) + 1
		p.typeIDs[s] = id
		p.idTypes[id] = types.Unalias(t).Underlying().(*types.Slice).Elem()
		return id
	}
	return p.typeID(t)
}

// containsBasic reports whether an object of type t may hold, by value, a
// component whose type is identical to the basic (or named basic) type b.
// Pointers, slices, maps, interfaces and functions end the walk (what they
// refer to lives in other objects); unknown shapes answer true.
func (p *Prog) containsBasic(t types.Type, b types.Type, depth int) bool {
	t = types.Unalias(t)
	if types.Identical(t, b) {
		return true
	}
	if depth > 8 {
		return true
	}
	switch u := t.Underlying().(type) {
	case *types.Basic:
		return types.Identical(t.Underlying(), b.Underlying()) && types.Identical(t, b)
	case *types.Struct:
		for i := 0; i < u.NumFields(); i++ {
			if p.containsBasic(u.Field(i).Type(), b, depth+1) {
				return true
			}
		}
		return false
	case *types.Array:
		return p.containsBasic(u.Elem(), b, depth+1)
	case *types.Pointer, *types.Slice, *types.Map, *types.Chan, *types.Signature, *types.Interface:
		return false
	}
	return true
}

// notHolding: the dynamic type ids registered so far whose objects cannot hold a b.
func (p *Prog) notHolding(b types.Type) []int {
	var out []int
	for id, t := range p.idTypes {
		if _, isMap := t.Underlying().(*types.Map); isMap {
			continue // map objects are not addressable memory
		}
		if !p.containsBasic(t, b, 0) {
			out = append(out, id)
		}
	}
	sort.Ints(out)
	return out
}

func (p *Prog) globalRef(g *ssa.Global) int {
	if id, ok := p.globals[g]; ok {
		return id
	}
	id := -(len(p.globals) + 1)
	p.globals[g] = id
	return id
}

// funcKey is the name used in contract files: "pkgname.Func", "(*pkgname.T).M",
// "(pkgname.T).M", closures "pkgname.F$1".  The package *name* qualifies, with
// the full path accepted as well (see findFunc).
func funcKey(fn *ssa.Function) string {
	if fn == nil {
		return "<nil>"
	}
	if fn.Parent() != nil {
		return funcKey(fn.Parent()) + fn.Name()[strings.LastIndex(fn.Name(), "$"):]
	}
	o := fn.Origin()
	if o != nil && o != fn {
		fn = o
	}
	s := fn.String() // e.g. (*github.com/x/y/pkg.T).M or github.com/x/y/pkg.F
	return shortenPaths(s)
}

// shortenPaths drops directory prefixes from package paths inside a name and
// generic type argument lists.
func shortenPaths(s string) string {
	var b strings.Builder
	i := 0
	for i < len(s) {
		// find a path-like run: letters digits . / - _ ~
		j := i
		for j < len(s) && (isPathCh(s[j])) {
			j++
		}
		if j > i {
			run := s[i:j]
			if k := strings.LastIndex(run, "/"); k >= 0 {
				run = run[k+1:]
			}
			b.WriteString(run)
			i = j
			continue
		}
		b.WriteByte(s[i])
		i++
	}
	out := b.String()
	// strip generic args "[T]" / "[...]" after type names
	for {
		k := strings.Index(out, "[")
		if k < 0 {
			break
		}
		e := strings.Index(out[k:], "]")
		if e < 0 {
			break
		}
		out = out[:k] + out[k+e+1:]
	}
	return out
}

func isPathCh(c byte) bool {
	return c == '/' || c == '.' || c == '-' || c == '_' || c == '~' || c == '$' ||
		(c >= 'a' && c <= 'z') || (c >= 'A' && c <= 'Z') || (c >= '0' && c <= '9')
}

// allFuncs enumerates functions (incl. methods, generic origins and closures)
// of the loaded repo packages, keyed by funcKey.
func (p *Prog) allFuncs() map[string]*ssa.Function {
	out := map[string]*ssa.Function{}
	var add func(fn *ssa.Function)
	add = func(fn *ssa.Function) {
		if fn == nil {
			return
		}
		k := funcKey(fn)
		if _, ok := out[k]; ok {
			return
		}
		out[k] = fn
		for _, a := range fn.AnonFuncs {
			add(a)
		}
	}
	for _, sp := range p.ssa.AllPackages() {
		if !strings.HasPrefix(sp.Pkg.Path(), repoMod) {
			continue
		}
		for _, m := range sp.Members {
			switch m := m.(type) {
			case *ssa.Function:
				add(m)
			case *ssa.Type:
				nt, ok := m.Type().(*types.Named)
				if !ok {
					continue
				}
				for i := 0; i < nt.NumMethods(); i++ {
					add(p.ssa.FuncValue(nt.Method(i)))
				}
			}
		}
	}
	return out
}

func (p *Prog) pos(ps token.Pos) string {
	if !ps.IsValid() {
		return "-"
	}
	q := p.fset.Position(ps)
	f := q.Filename
	if strings.HasPrefix(f, p.repoDir+"/") {
		f = f[len(p.repoDir)+1:]
	}
	return fmt.Sprintf("%s:%d", f, q.Line)
}

func inRepo(fn *ssa.Function) bool {
	if fn == nil {
		return false
	}
	pk := fn.Pkg
	if pk == nil && fn.Parent() != nil {
		return inRepo(fn.Parent())
	}
	if pk == nil && fn.Origin() != nil {
		pk = fn.Origin().Pkg
	}
	return pk != nil && strings.HasPrefix(pk.Pkg.Path(), repoMod)
}

func sortedFuncKeys(m map[string]*ssa.Function) []string {
	var ks []string
	for k := range m {
		ks = append(ks, k)
	}
	sort.Strings(ks)
	return ks
}

// mayReachCounted: can a call (static callee fn, or the call c when dynamic /
// interface) reach, through calls visible in the SSA of the repository, a
// function that carries a ghost call counter?  Interface invocations are
// resolved by method name over all repository methods; calls of unknown
// function values and callbacks from dependencies are assumed not to reach one
// (listed as an assumption).
func (p *Prog) mayReachCounted(c *ssa.CallCommon, fn *ssa.Function, labels map[string]bool) bool {
	if p.reachMemo == nil || !sameLabels(p.reachLabels, labels) {
		p.reachLabels = labels
		p.reachMemo = map[*ssa.Function]int{}
		p.byMethodName = map[string][]*ssa.Function{}
		for _, f := range p.allFuncs() {
			if f.Signature.Recv() != nil {
				p.byMethodName[f.Name()] = append(p.byMethodName[f.Name()], f)
			}
		}
	}
	counted := func(key string) bool {
		for _, l := range p.countOf[key] {
			if labels[l] {
				return true
			}
		}
		return false
	}
	var visit func(f *ssa.Function, depth int) bool
	visit = func(f *ssa.Function, depth int) bool {
		if f == nil {
			return false
		}
		if f.Origin() != nil {
			f = f.Origin()
		}
		if depth > 0 && counted(funcKey(f)) {
			if os.Getenv("GOVC_DEBUG") == "reach" {
				fmt.Fprintln(os.Stderr, "reach: counted", funcKey(f), "depth", depth)
			}
			return true
		}
		if !inRepo(f) || f.Blocks == nil {
			return false
		}
		switch p.reachMemo[f] {
		case 1:
			return false // in progress or known false
		case 2:
			return true
		}
		p.reachMemo[f] = 1
		res := false
		check := func(cc *ssa.CallCommon) {
			if res {
				return
			}
			if cc.IsInvoke() {
				if counted(ifaceMethodKey(cc)) {
					if os.Getenv("GOVC_DEBUG") == "reach" {
						fmt.Fprintln(os.Stderr, "reach: invoke", ifaceMethodKey(cc), "in", funcKey(f))
					}
					res = true
					return
				}
				for _, m := range p.implementors(cc) {
					if visit(m, depth+1) {
						res = true
						return
					}
				}
				return
			}
			switch v := cc.Value.(type) {
			case *ssa.Function:
				if visit(v, depth+1) {
					res = true
				}
			case *ssa.MakeClosure:
				if visit(v.Fn.(*ssa.Function), depth+1) {
					res = true
				}
			}
		}
		for _, b := range f.Blocks {
			for _, in := range b.Instrs {
				if ci, ok := in.(ssa.CallInstruction); ok {
					check(ci.Common())
				}
			}
		}
		for _, a := range f.AnonFuncs {
			if !res && visit(a, depth+1) {
				res = true
			}
		}
		if res {
			p.reachMemo[f] = 2
		}
		return res
	}
	if fn != nil {
		return visit(fn, 0)
	}
	if c != nil && c.IsInvoke() {
		// (the invoked method itself was counted at the call site)
		for _, m := range p.implementors(c) {
			if visit(m, 1) {
				return true
			}
		}
		return false
	}
	return false
}

// implementors: repository methods that an interface invocation may dispatch to
// (same method name, receiver type implements the interface).
func (p *Prog) implementors(c *ssa.CallCommon) []*ssa.Function {
	iface, ok := c.Value.Type().Underlying().(*types.Interface)
	var out []*ssa.Function
	for _, m := range p.byMethodName[c.Method.Name()] {
		if !ok {
			out = append(out, m)
			continue
		}
		rt := m.Signature.Recv().Type()
		if types.Implements(rt, iface) || types.Implements(types.NewPointer(rt), iface) {
			out = append(out, m)
		}
	}
	return out
}

func sameLabels(a, b map[string]bool) bool {
	if len(a) != len(b) {
		return false
	}
	for k := range a {
		if !b[k] {
			return false
		}
	}
	return true
}

// baseKey strips the "#variant" suffix of a contract key: several contracts may
// be checked on the same function (callers use the unsuffixed one).
func baseKey(k string) string {
	if i := strings.LastIndex(k, "#"); i >= 0 && !strings.Contains(k[i:], "$") {
		return k[:i]
	}
	return k
}

// funcByKey finds a function or method of any loaded package by its contract key.
func (p *Prog) funcByKey(key string) *ssa.Function {
	if p.byKey == nil {
		p.byKey = map[string]*ssa.Function{}
		add := func(fn *ssa.Function) {
			if fn == nil {
				return
			}
			k := funcKey(fn)
			if _, ok := p.byKey[k]; !ok {
				p.byKey[k] = fn
			}
		}
		for _, sp := range p.ssa.AllPackages() {
			for _, m := range sp.Members {
				switch m := m.(type) {
				case *ssa.Function:
					add(m)
				case *ssa.Type:
					if nt, ok := m.Type().(*types.Named); ok {
						for i := 0; i < nt.NumMethods(); i++ {
							add(p.ssa.FuncValue(nt.Method(i)))
						}
					}
				}
			}
		}
	}
	return p.byKey[key]
}

// funcInDir finds the package-level function with this short key in the
// package whose import path ends with dir.
func (p *Prog) funcInDir(key, dir string) *ssa.Function {
	for _, sp := range p.ssa.AllPackages() {
		if !strings.HasSuffix(sp.Pkg.Path(), dir) {
			continue
		}
		for _, m := range sp.Members {
			if f, ok := m.(*ssa.Function); ok && funcKey(f) == key {
				return f
			}
		}
	}
	return nil
}
