//go:build verif

package td

//@ func Abs
//@   ensures nonneg: result >= 0
//@   ensures val:    result == x || result == -x
//@   ensures badpos: result > 0
//@ end

//@ func Max3
//@   ensures ge:   result >= a && result >= b && result >= c
//@   ensures one:  result == a || result == b || result == c
//@   ensures bad:  result == a
//@ end

//@ func Sum
//@   requires pos: forall i int :: 0 <= i && i < len(xs) ==> xs[i] >= 0
//@   ensures  nonneg: result >= 0
//@   ensures  badzero: result == 0
//@   loop 1 invariant acc: s >= 0
//@   loop 1 invariant idx: 0 <= $idx(1) && $idx(1) <= len(xs)
//@ end

//@ func IndexOf
//@   ensures found:  result >= 0 ==> result < len(xs) && xs[result] == s
//@   ensures absent: result < 0 ==> forall i int :: 0 <= i && i < len(xs) ==> xs[i] != s
//@   ensures badalways: result >= 0
//@   loop 1 invariant none: 0 <= $idx(1) && $idx(1) <= len(xs) && forall i int :: 0 <= i && i < $idx(1) ==> xs[i] != s
//@ end

//@ func CountUp
//@   requires n >= 0
//@   ensures  eq: result == n
//@   ensures  badlt: result < n
//@   loop 1 invariant bound: 0 <= i && i <= n
//@ end

//@ func ForClassic
//@   requires nonempty: len(xs) > 0
//@   ensures  inrange: 0 <= result && result < len(xs)
//@   ensures  ismax: forall k int :: 0 <= k && k < len(xs) ==> xs[k] <= xs[result]
//@   ensures  badfirst: result == 0
//@   loop 1 invariant rng: 1 <= i && i <= len(xs) && 0 <= best && best < i
//@   loop 1 invariant mx:  forall k int :: 0 <= k && k < i ==> xs[k] <= xs[best]
//@ end

//@ func (*Box).Put
//@   requires b.items != nil && it != nil
//@   modifies b.items[*], b.count
//@   ensures  in:    in(it.ID, b.items) && b.items[it.ID] == it
//@   ensures  cnt:   b.count == old(b.count) + 1
//@   ensures  other: forall k string :: k != it.ID ==> (in(k, b.items) == in(k, old(b.items))) && b.items[k] == old(b.items[k])
//@   ensures  badother: forall k string :: in(k, b.items) == in(k, old(b.items))
//@ end

//@ func (*Box).Get
//@   modifies nothing
//@   ensures  r: result == b.items[id]
//@   ensures  badnonnil: result != nil
//@ end

//@ func (*Box).FlagAll
//@   modifies b.changed[*]
//@   ensures all: forall i int :: 0 <= i && i < len(b.changed) ==> b.changed[i]
//@   ensures samelen: len(b.changed) == old(len(b.changed))
//@   ensures badnone: forall i int :: 0 <= i && i < len(b.changed) ==> !b.changed[i]
//@   loop 1 invariant pre: 0 <= $idx(1) && $idx(1) <= len(b.changed) && forall i int :: 0 <= i && i < $idx(1) ==> b.changed[i]
//@ end

//@ spec func boxOK(b *Box) bool = b.items != nil && forall k string :: in(k, b.items) ==> b.items[k] != nil && 0 <= b.items[k].Shard && b.items[k].Shard < len(b.changed)

//@ func (*Box).RemoveAll
//@   requires ok: boxOK(b)
//@   modifies b.items[*], b.changed[*]
//@   ensures  gone: forall i int :: 0 <= i && i < len(ids) ==> !in(ids[i], b.items)
//@   ensures  flagged: forall k string :: in(k, old(b.items)) && !in(k, b.items) ==> b.changed[old(b.items[k]).Shard]
//@   ensures  kept: forall k string :: in(k, b.items) ==> in(k, old(b.items)) && b.items[k] == old(b.items[k])
//@   ensures  ok: boxOK(b)
//@   ensures  badall: forall k string :: !in(k, b.items)
//@   loop 1 invariant ok:   boxOK(b) && 0 <= $idx(1) && $idx(1) <= len(ids)
//@   loop 1 invariant gone: forall i int :: 0 <= i && i < $idx(1) ==> !in(ids[i], b.items)
//@   loop 1 invariant flagged: forall k string :: in(k, old(b.items)) && !in(k, b.items) ==> b.changed[old(b.items[k]).Shard]
//@   loop 1 invariant kept: forall k string :: in(k, b.items) ==> in(k, old(b.items)) && b.items[k] == old(b.items[k])
//@   loop 1 invariant mono: forall i int :: 0 <= i && i < len(b.changed) && old(b.changed[i]) ==> b.changed[i]
//@ end

//@ func (*Box).AllFlagged
//@   requires ok: boxOK(b)
//@   modifies nothing
//@   ensures  yes: result ==> forall k string :: in(k, b.items) ==> b.changed[b.items[k].Shard]
//@   ensures  badno: !result
//@   loop 1 invariant seen: forall k string :: $seen(1, k) && in(k, b.items) ==> b.changed[b.items[k].Shard]
//@ end

//@ func (*Box).AddName
//@   modifies b.names, b.names[*]
//@   ensures  len:  len(b.names) == old(len(b.names)) + 1
//@   ensures  last: b.names[len(b.names)-1] == n
//@   ensures  keep: forall i int :: 0 <= i && i < old(len(b.names)) ==> b.names[i] == old(b.names)[i]
//@   ensures  badfirst: b.names[0] == n
//@ end

//@ func FirstWord
//@   ensures pre:  hasPrefix(s, result)
//@   ensures nosp: forall k int :: 0 <= k && k < len(result) ==> result[k] != 32
//@   ensures stop: len(result) == len(s) || s[len(result)] == 32
//@   ensures badwhole: result == s
//@   loop 1 invariant rng: 0 <= i && i <= len(s) && forall k int :: 0 <= k && k < i ==> s[k] != 32
//@ end

//@ func HasAPrefix
//@   ensures a: s == "a/x" ==> result
//@   ensures b: s == "b" ==> result
//@   ensures c: s == "c" ==> !result
//@   ensures bad: s == "c" ==> result
//@ end

//@ func AreaOf
//@   ensures nilz: sh == nil ==> result == 0
//@   ensures sq:   typeIs(sh, *Sq) ==> result >= 0
//@   ensures bad:  result >= 0
//@ end

//@ func WithDefer
//@   modifies b.count
//@   ensures r:  result == 7
//@   ensures c:  b.count == 7
//@   ensures bad: b.count == 8
//@ end

//@ func Caller
//@   requires b.items != nil && it != nil
//@   modifies b.items[*], b.count
//@   ensures  r: result == old(b.count) + 1
//@   ensures  in: in(it.ID, b.items)
//@   ensures  bad: result == old(b.count)
//@ end

//@ func Clamp
//@   pure
//@   requires lo <= hi
//@   ensures  result >= lo && result <= hi
//@   ensures  v >= lo && v <= hi ==> result == v
//@ end

//@ func UseClamp
//@   ensures rng: 0 <= result && result <= 256
//@   ensures id:  v == 5 ==> result == 5
//@   ensures bad: result == v
//@ end

//@ func Gcd
//@   requires a > 0 && b >= 0
//@   ensures  pos: result > 0
//@   ensures  badone: result == 1
//@   loop 1 invariant pos: a > 0 && b >= 0
//@ end

//@ func Filter
//@   modifies nothing
//@   ensures valid: forall k int :: 0 <= k && k < len(result) ==> result[k] != nil && result[k].Valid
//@   ensures tags:  forall k int :: 0 <= k && k < len(all) ==> all[k].Tags == old(all[k].Tags) && all[k].Valid == old(all[k].Valid)
//@   ensures badall: len(result) == len(all)
//@   loop 1 invariant rng:  0 <= i && i <= $idx(1) && $idx(1) <= len(all) && len(items) == len(all)
//@   loop 1 invariant keep: forall k int :: 0 <= k && k < i ==> items[k] != nil && items[k].Valid
//@ end

//@ func Collect
//@   requires nn: forall k int :: 0 <= k && k < len(all) ==> all[k] != nil
//@   modifies nothing
//@   ensures same: forall k int :: 0 <= k && k < len(all) ==> all[k].Valid == old(all[k].Valid) && all[k].Name == old(all[k].Name)
//@   ensures le:   len(result) <= len(all)
//@   ensures badeq: len(result) == len(all)
//@   loop 1 invariant rng: 0 <= $idx(1) && $idx(1) <= len(all) && len(out) <= $idx(1)
//@   loop 1 invariant own: cap(out) == 0 || fresh(out)
//@ end

//@ func GcdOld
//@   requires a > 0 && b >= 0
//@   ensures  le: b > 0 ==> result <= b
//@   ensures  badeq: result == b
//@   loop 1 invariant step: (a == old(a) && b == old(b)) || (0 < a && a <= old(b) && 0 <= b && b < a)
//@   loop 1 invariant pos:  a > 0 && b >= 0
//@ end

//@ func SortBinds
//@   requires nn: forall k int :: 0 <= k && k < len(bs) ==> bs[k] != nil && bs[k].Name != ""
//@   modifies bs[*]
//@   ensures sorted: forall i int, j int :: 0 <= i && i < j && j < len(bs) ==> bs[i].Port <= bs[j].Port
//@   ensures named:  forall k int :: 0 <= k && k < len(bs) ==> bs[k] != nil && bs[k].Name != ""
//@   ensures badstrict: forall i int, j int :: 0 <= i && i < j && j < len(bs) ==> bs[i].Port < bs[j].Port
//@ end

//@ func LenAcrossUnknown
//@   ensures badstable: result
//@ end

//@ func LenFirstAfterUnknown
//@   ensures badsame: result == old(len(m))
//@   ensures nonneg:  result >= 0
//@ end

//@ func Weights
//@   loop 1 step grows: len(out) == $head(len(out)) || len(out) == $head(len(out)) + 1
//@   loop 1 step own:   len(out) == $head(len(out)) + 1 ==> out[len(out)-1] == (p.W != nil ? *p.W : 1)
//@   loop 1 step badshrink: len(out) < $head(len(out))
//@   loop 1 invariant own: cap(out) == 0 || fresh(out)
//@ end

//@ func PublishAfterWrite
//@   store Maps after write
//@ end
//@ func PublishBeforeWrite#bad
//@   store Maps after write
//@ end

//@ func UniqueIDs
//@   requires nn: forall k int :: 0 <= k && k < len(xs) ==> xs[k] != nil
//@   loop 1 step fresh-id: in(x.Port, used) && x.Port != 0 && forall v int :: v == x.Port ==> !$headmem(in(v, used))
//@   loop 1 step badstale: forall v int :: v == x.Port ==> $headmem(in(v, used))
//@ end
