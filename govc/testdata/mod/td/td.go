package td

import (
	"fmt"
	"sort"
	"strings"
)

type Item struct {
	ID    string
	Shard int
	Next  *Item
}

type Box struct {
	items   map[string]*Item
	changed []bool
	count   int
	names   []string
}

func Abs(x int) int {
	if x < 0 {
		return -x
	}
	return x
}

func Max3(a, b, c int) int {
	m := a
	if b > m {
		m = b
	}
	if c > m {
		m = c
	}
	return m
}

func Sum(xs []int) int {
	s := 0
	for _, x := range xs {
		s += x
	}
	return s
}

func IndexOf(xs []string, s string) int {
	for i, x := range xs {
		if x == s {
			return i
		}
	}
	return -1
}

func CountUp(n int) int {
	i := 0
	for i < n {
		i++
	}
	return i
}

func ForClassic(xs []int) int {
	best := 0
	for i := 1; i < len(xs); i++ {
		if xs[i] > xs[best] {
			best = i
		}
	}
	return best
}

func (b *Box) Put(it *Item) {
	b.items[it.ID] = it
	b.count++
}

func (b *Box) Get(id string) *Item {
	return b.items[id]
}

func (b *Box) FlagAll() {
	for i := range b.changed {
		b.changed[i] = true
	}
}

func (b *Box) RemoveAll(ids []string) {
	for _, id := range ids {
		if it, ok := b.items[id]; ok {
			b.changed[it.Shard] = true
			delete(b.items, id)
		}
	}
}

func (b *Box) AllFlagged() bool {
	for _, it := range b.items {
		if !b.changed[it.Shard] {
			return false
		}
	}
	return true
}

func (b *Box) AddName(n string) {
	b.names = append(b.names, n)
}

func FirstWord(s string) string {
	i := 0
	for i < len(s) && s[i] != ' ' {
		i++
	}
	return s[:i]
}

func HasAPrefix(s string) bool {
	return strings.HasPrefix(s, "a/") || s == "b"
}

type Shape interface {
	Area() int
}

type Sq struct{ s int }

func (q *Sq) Area() int { return q.s * q.s }

func AreaOf(sh Shape) int {
	if sh == nil {
		return 0
	}
	if q, ok := sh.(*Sq); ok {
		return q.s * q.s
	}
	return sh.Area()
}

func WithDefer(b *Box) (n int) {
	defer func() {
		b.count = n
	}()
	n = 7
	return n
}

func Caller(b *Box, it *Item) int {
	b.Put(it)
	return b.count
}

func SortNames(b *Box) {
	sort.Strings(b.names)
}

func Clamp(v, lo, hi int) int {
	if v < lo {
		return lo
	}
	if v > hi {
		return hi
	}
	return v
}

func UseClamp(v int) int {
	return Clamp(v, 0, 256)
}

func Gcd(a, b int) int {
	for b != 0 {
		a, b = b, a%b
	}
	return a
}

type Obj struct {
	Name  string
	Valid bool
	Tags  map[string]string
}

// Filter keeps the valid objects, like GetIngressList.
func Filter(all []Obj) []*Obj {
	items := make([]*Obj, len(all))
	var i int
	for j := range all {
		o := &all[j]
		if o.Valid {
			items[i] = o
			i++
		}
	}
	return items[:i]
}

// Collect appends names of valid objects.
func Collect(all []*Obj) []string {
	var out []string
	for _, o := range all {
		if o.Valid {
			out = append(out, o.Name)
		}
	}
	return out
}

func GcdOld(a, b int) int {
	for b != 0 {
		r := a % b
		a, b = b, r
	}
	return a
}

type Bind struct {
	Port int
	Name string
}

// SortBinds orders binds by port.
func SortBinds(bs []*Bind) {
	sort.Slice(bs, func(i, j int) bool {
		return bs[i].Port < bs[j].Port
	})
}

// LenAcrossUnknown: unknown code may change the map between the two reads.
func LenAcrossUnknown(m map[string]int, f func()) bool {
	n := len(m)
	f()
	return len(m) == n
}

// LenFirstAfterUnknown: the first use of a map component comes after the
// unknown call (regression: lazily registered components escaped the havoc).
func LenFirstAfterUnknown(m map[string]int, f func()) int {
	f()
	return len(m)
}

type Pair struct {
	Name string
	W    *int32
}

// Weights: per-iteration postcondition (loop step clause) and a pointer to a
// basic type that cannot alias the result's backing array.
func Weights(ps []Pair) []int {
	var out []int
	for _, p := range ps {
		if p.Name == "" {
			continue
		}
		w := 1
		if p.W != nil {
			w = int(*p.W)
		}
		out = append(out, w)
	}
	return out
}

type Conf struct {
	Maps  *int
	Other int
}

func write(v *int) error {
	if v == nil {
		return fmt.Errorf("nothing to write")
	}
	return nil
}

// PublishAfterWrite: the result is published only after it was written out.
func PublishAfterWrite(c *Conf, v *int) error {
	c.Other = 1
	if err := write(v); err != nil {
		return err
	}
	c.Maps = v
	return nil
}

// PublishBeforeWrite: published first (must be flagged).
func PublishBeforeWrite(c *Conf, v *int) error {
	c.Maps = v
	return write(v)
}

// UniqueIDs: every element gets an id that was not handed out before.
func UniqueIDs(xs []*Bind, start int) {
	used := map[int]struct{}{}
	for _, x := range xs {
		id := start
		for {
			_, taken := used[id]
			if id != 0 && !taken {
				break
			}
			id++
		}
		used[id] = struct{}{}
		x.Port = id
	}
}
