module tdmod

go 1.23
