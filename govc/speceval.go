package main

// Evaluation of specification expressions over symbolic states.

import (
	"fmt"
	"go/constant"
	"go/token"
	"go/types"
	"strconv"
	"strings"

	"golang.org/x/tools/go/ssa"
)

type SEnv struct {
	vc          *VC
	fr          *Frame // naming context: function, package, locals
	fn          *ssa.Function
	cur         *State
	old         *State
	vars        map[string]Val
	results     []Val
	ct          *Contract
	block       *ssa.BasicBlock // current block (for local lookup), may be nil
	depth       int
	qfacts      *[]Term
	qstack      []*qlevel
	locSt       *State         // state in which local variables are read (old() does not rewind locals)
	pkgCtx      *types.Package // package context override (bodies of spec funcs of another package)
	assumeMode  bool           // the formula being evaluated will be assumed, not proved
	inSpecFunc  bool           // evaluating the body of a spec func: only its parameters and package-level names are visible
	headSt      *State         // loop step clauses: the state at the start of the iteration ($head)
	localsFirst bool           // identifiers denote current values of locals/params (loop invariants, call-site asserts)
}

var tyBool = types.Typ[types.Bool]
var tyInt = types.Typ[types.Int]
var tyString = types.Typ[types.String]

func boolVal(t Term) Val { return Val{T: tyBool, S: []Term{t}} }
func intVal(t Term) Val  { return Val{T: tyInt, S: []Term{t}} }

func (e *SEnv) fail(format string, a ...interface{}) {
	panic(unsupported{"spec: " + fmt.Sprintf(format, a...)})
}

func (e *SEnv) sub() *SEnv {
	n := *e
	n.vars = make(map[string]Val, len(e.vars))
	for k, v := range e.vars {
		n.vars[k] = v
	}
	return &n
}

func (e *SEnv) pkg() *types.Package {
	if e.pkgCtx != nil {
		return e.pkgCtx
	}
	f := e.fn
	for f.Parent() != nil {
		f = f.Parent()
	}
	if f.Pkg != nil {
		return f.Pkg.Pkg
	}
	if o := f.Origin(); o != nil && o.Pkg != nil {
		return o.Pkg.Pkg
	}
	if f.Object() != nil {
		return f.Object().Pkg()
	}
	return nil
}

type qlevel struct {
	vars  []string
	facts *[]Term
	lets  [][2]string // (name, term) in definition order
}

// qname gives a (possibly large) term a name: a constant definition when it is
// ground, a let-binding of the innermost quantifier whose variables it mentions
// otherwise.
func (e *SEnv) qname(t Term, sort string) Term {
	vc := e.vc
	if len(t) < 48 {
		return t
	}
	for i := len(e.qstack) - 1; i >= 0; i-- {
		lv := e.qstack[i]
		for _, v := range lv.vars {
			if strings.Contains(t, v) {
				for _, l := range lv.lets {
					if l[1] == t {
						return l[0]
					}
				}
				vc.n++
				name := fmt.Sprintf("l!%d", vc.n)
				lv.lets = append(lv.lets, [2]string{name, t})
				lv.vars = append(lv.vars, name)
				return name
			}
		}
	}
	saved := vc.inQuant
	vc.inQuant = 0
	n := vc.define("sl", sort, t)
	vc.inQuant = saved
	return n
}

func (e *SEnv) mentionsBound(t Term) bool {
	for _, lv := range e.qstack {
		for _, v := range lv.vars {
			if strings.Contains(t, v) {
				return true
			}
		}
	}
	return false
}

// addFact records a typing fact of a value read in a specification.  Facts that
// mention no bound variable are assumed for the state; others go to the
// innermost quantifier whose variables they mention.
func (e *SEnv) addFact(st *State, f Term) {
	vc := e.vc
	if f == tTrue {
		return
	}
	for i := len(e.qstack) - 1; i >= 0; i-- {
		lv := e.qstack[i]
		for _, v := range lv.vars {
			if strings.Contains(f, v) {
				if lv.facts != nil {
					*lv.facts = append(*lv.facts, f)
				}
				return
			}
		}
	}
	if st.pc != tTrue && len(e.qstack) > 0 {
		// guarded by a path condition that itself cannot mention bound variables
	}
	saved := vc.inQuant
	vc.inQuant = 0
	vc.assume(st, f)
	vc.inQuant = saved
}

// load reads a value from the heap of st and records its typing facts: outside
// quantifiers they are assumed (under st's path condition); inside a
// quantifier they become an antecedent of the body.
func (e *SEnv) load(st *State, ref, off Term, t types.Type) Val {
	vc := e.vc
	v := vc.loadAt(st, ref, off, t)
	ks := vc.p.lay.of(t).Kinds
	for i := range v.S {
		v.S[i] = e.qname(v.S[i], ks[i].Sort())
	}
	e.addFact(st, vc.wellTyped(st, v))
	return v
}

// stOf: the state in which references held by v are dereferenced.
func (e *SEnv) stOf(v Val) *State {
	if v.Old != nil {
		return v.Old
	}
	return e.cur
}

func (e *SEnv) localState() *State {
	if e.locSt != nil {
		return e.locSt
	}
	return e.cur
}

func (e *SEnv) evalBool(x SExpr) Term {
	v := e.eval(x)
	if len(v.S) != 1 {
		e.fail("boolean expected, got %v", v.T)
	}
	return v.S[0]
}

func (e *SEnv) eval(x SExpr) Val {
	vc := e.vc
	switch x := x.(type) {
	case *SInt:
		return Val{T: types.Typ[types.UntypedInt], S: []Term{x.V}}
	case *SStr:
		return Val{T: tyString, S: []Term{vc.strLit(x.V)}}
	case *SBool:
		if x.V {
			return boolVal(tTrue)
		}
		return boolVal(tFalse)
	case *SNil:
		return Val{T: types.Typ[types.UntypedNil], S: []Term{"0", "0", "0"}}
	case *SIdent:
		return e.ident(x.Name)
	case *SUn:
		switch x.Op {
		case "!":
			return boolVal(tNot(e.evalBool(x.X)))
		case "-":
			v := e.eval(x.X)
			return Val{T: v.T, S: []Term{sx("-", v.S[0])}}
		case "*":
			v := e.eval(x.X)
			pt, ok := types.Unalias(v.T).Underlying().(*types.Pointer)
			if !ok {
				e.fail("dereference of non-pointer %v", v.T)
			}
			r := e.load(e.stOf(v), v.S[0], v.S[1], pt.Elem())
			r.Old = v.Old
			return r
		case "&":
			return e.addr(x.X)
		}
	case *SBin:
		return e.binary(x)
	case *SCond:
		c := e.evalBool(x.C)
		a, b := e.eval(x.A), e.eval(x.B)
		a, b = e.unify(a, b)
		out := Val{T: a.T}
		for i := range a.S {
			out.S = append(out.S, tIte(c, a.S[i], b.S[i]))
		}
		return out
	case *SQuant:
		return e.quant(x)
	case *SSel:
		return e.selector(x)
	case *SIndex:
		return e.index(x)
	case *SSlice:
		base := e.eval(x.X)
		lo, hi := Term("0"), Term("")
		if x.Lo != nil {
			lo = e.eval(x.Lo).S[0]
		}
		switch u := types.Unalias(base.T).Underlying().(type) {
		case *types.Basic:
			if x.Hi != nil {
				hi = e.eval(x.Hi).S[0]
			} else {
				hi = sx("slen", base.S[0])
			}
			return Val{T: base.T, S: []Term{sx("ssub", base.S[0], lo, hi)}}
		case *types.Slice:
			if x.Hi != nil {
				hi = e.eval(x.Hi).S[0]
			} else {
				hi = base.S[2]
			}
			es := vc.p.lay.size(u.Elem())
			return Val{T: base.T, S: []Term{base.S[0], vc.elemOff(base.S[1], lo, es), tSub(hi, lo), tSub(base.S[3], lo)}}
		}
		e.fail("slice expression on %v", base.T)
	case *SCall:
		return e.call(x)
	}
	e.fail("cannot evaluate %T", x)
	return Val{}
}

// unify adapts untyped nil / untyped int operands to the other operand's type.
func (e *SEnv) unify(a, b Val) (Val, Val) {
	if isUntypedNil(a.T) && !isUntypedNil(b.T) {
		a = e.vc.zeroVal(b.T)
	}
	if isUntypedNil(b.T) && !isUntypedNil(a.T) {
		b = e.vc.zeroVal(a.T)
	}
	if isUntyped(a.T) && !isUntyped(b.T) {
		a.T = b.T
	}
	if isUntyped(b.T) && !isUntyped(a.T) {
		b.T = a.T
	}
	if len(a.S) != len(b.S) {
		e.fail("operands have different shapes: %v vs %v", a.T, b.T)
	}
	return a, b
}

func isUntypedNil(t types.Type) bool {
	b, ok := t.(*types.Basic)
	return ok && b.Kind() == types.UntypedNil
}
func isUntyped(t types.Type) bool {
	b, ok := t.(*types.Basic)
	return ok && b.Info()&types.IsUntyped != 0
}

func (e *SEnv) binary(x *SBin) Val {
	switch x.Op {
	case "&&":
		return boolVal(tAnd(e.evalBool(x.L), e.evalBool(x.R)))
	case "||":
		return boolVal(tOr(e.evalBool(x.L), e.evalBool(x.R)))
	case "==>":
		return boolVal(tImp(e.evalBool(x.L), e.evalBool(x.R)))
	case "<==>":
		return boolVal(tEq(e.evalBool(x.L), e.evalBool(x.R)))
	}
	a, b := e.eval(x.L), e.eval(x.R)
	a, b = e.unify(a, b)
	switch x.Op {
	case "==":
		return boolVal(e.fr.valuesEqual(e.cur, a, b))
	case "!=":
		return boolVal(tNot(e.fr.valuesEqual(e.cur, a, b)))
	}
	k := e.vc.p.lay.of(a.T).Kinds[0]
	p, q := a.S[0], b.S[0]
	switch k {
	case KI:
		switch x.Op {
		case "+":
			return Val{T: a.T, S: []Term{sx("+", p, q)}}
		case "-":
			return Val{T: a.T, S: []Term{sx("-", p, q)}}
		case "*":
			return Val{T: a.T, S: []Term{sx("*", p, q)}}
		case "/":
			return Val{T: a.T, S: []Term{sx("godiv", p, q)}}
		case "%":
			return Val{T: a.T, S: []Term{sx("gorem", p, q)}}
		case "<":
			return boolVal(tLt(p, q))
		case "<=":
			return boolVal(tLe(p, q))
		case ">":
			return boolVal(tLt(q, p))
		case ">=":
			return boolVal(tLe(q, p))
		}
	case KS:
		switch x.Op {
		case "+":
			return Val{T: a.T, S: []Term{sx("sconcat", p, q)}}
		case "<":
			return boolVal(sx("slt", p, q))
		case ">":
			return boolVal(sx("slt", q, p))
		case "<=":
			return boolVal(tNot(sx("slt", q, p)))
		case ">=":
			return boolVal(tNot(sx("slt", p, q)))
		}
	case KT:
		// comparisons of time values are on instants
		pi, qi := sx("instant", p), sx("instant", q)
		switch x.Op {
		case "<":
			return boolVal(tLt(pi, qi))
		case "<=":
			return boolVal(tLe(pi, qi))
		case ">":
			return boolVal(tLt(qi, pi))
		case ">=":
			return boolVal(tLe(qi, pi))
		}
	}
	e.fail("operator %s on %v", x.Op, a.T)
	return Val{}
}

func (e *SEnv) quant(x *SQuant) Val {
	vc := e.vc
	n := e.sub()
	var binders []string
	var guards []Term
	for _, v := range x.Vars {
		t := e.resolveType(v.Type)
		lay := vc.p.lay.of(t)
		val := Val{T: t}
		rootPtr := false
		if pt, isPtr := types.Unalias(t).Underlying().(*types.Pointer); isPtr && vc.p.rootOnly(pt.Elem()) {
			rootPtr = true
		}
		for i, k := range lay.Kinds {
			if rootPtr && i == 1 {
				val.S = append(val.S, "0") // pointers to root-only types have offset 0
				continue
			}
			vc.n++
			name := fmt.Sprintf("q!%d_%s_%d", vc.n, cleanName(v.Name), i)
			binders = append(binders, fmt.Sprintf("(%s %s)", name, k.Sort()))
			val.S = append(val.S, name)
		}
		n.vars[v.Name] = val
		// pointer-typed bound variables range over valid non-nil pointers
		if _, isPtr := types.Unalias(t).Underlying().(*types.Pointer); isPtr {
			guards = append(guards, tNot(tEq(val.S[0], "0")), vc.wellTyped(e.cur, val))
		}
	}
	var fa, fc []Term
	vc.inQuant++
	var body Term
	var qvars []string
	for _, v := range x.Vars {
		qvars = append(qvars, n.vars[v.Name].S...)
	}
	lv := &qlevel{vars: qvars}
	n.qstack = append(append([]*qlevel{}, e.qstack...), lv)
	if imp, ok := x.Body.(*SBin); ok && imp.Op == "==>" && x.Forall {
		lv.facts = &fa
		a := n.evalBool(imp.L)
		lv.facts = &fc
		c := n.evalBool(imp.R)
		if e.assumeMode {
			body = tImp(tAnd(append(dedupTerms(fa), a)...), tAnd(append(dedupTerms(fc), c)...))
		} else {
			body = tImp(tAnd(append(append(dedupTerms(fa), a), dedupTerms(fc)...)...), c)
		}
	} else {
		lv.facts = &fc
		b := n.evalBool(x.Body)
		switch {
		case x.Forall && e.assumeMode:
			body = tAnd(append(dedupTerms(fc), b)...)
		case x.Forall:
			body = tImp(tAnd(dedupTerms(fc)...), b)
		case e.assumeMode:
			body = tAnd(append(dedupTerms(fc), b)...)
		default:
			body = b
		}
	}
	vc.inQuant--
	q := "exists"
	if x.Forall {
		q = "forall"
		body = tImp(tAnd(guards...), body)
	} else {
		body = tAnd(append(guards, body)...)
	}
	for i := len(lv.lets) - 1; i >= 0; i-- {
		body = fmt.Sprintf("(let ((%s %s)) %s)", lv.lets[i][0], lv.lets[i][1], body)
	}
	return boolVal(fmt.Sprintf("(%s (%s) %s)", q, strings.Join(binders, " "), body))
}

func (e *SEnv) resolveType(s string) types.Type {
	s = strings.TrimSpace(s)
	switch s {
	case "int":
		return tyInt
	case "string":
		return tyString
	case "bool":
		return tyBool
	case "byte":
		return types.Typ[types.Uint8]
	}
	if e.pkgCtx != nil {
		// resolve in the scope of any file of that package (imports differ per file)
		var lastErr error
		if pk := e.vc.p.byPath[e.pkgCtx.Path()]; pk != nil {
			for _, f := range pk.Syntax {
				tv, err := types.Eval(e.vc.p.fset, e.pkgCtx, f.End()-1, s)
				if err == nil {
					return tv.Type
				}
				lastErr = err
			}
		}
		e.fail("type %q in package %s: %v", s, e.pkgCtx.Path(), lastErr)
	}
	tv, err := types.Eval(e.vc.p.fset, e.pkg(), e.fnPos(), s)
	if err != nil {
		// import names differ per file: try the file scopes of the whole package
		if pk := e.vc.p.byPath[e.pkg().Path()]; pk != nil {
			for _, f := range pk.Syntax {
				if tv2, err2 := types.Eval(e.vc.p.fset, e.pkg(), f.End()-1, s); err2 == nil {
					return tv2.Type
				}
			}
		}
		// "pkg.T" evaluated inside package pkg itself
		if pk := e.pkg(); pk != nil {
			q := pk.Name() + "."
			if k := strings.Index(s, q); k >= 0 && (k == 0 || !isPathCh(s[k-1])) {
				if tv2, err2 := types.Eval(e.vc.p.fset, pk, token.NoPos, s[:k]+s[k+len(q):]); err2 == nil {
					return tv2.Type
				}
			}
		}
		e.fail("type %q: %v", s, err)
	}
	return tv.Type
}

func (e *SEnv) fnPos() token.Pos {
	f := e.fn
	for f.Parent() != nil {
		f = f.Parent()
	}
	if f.Syntax() != nil {
		return f.Syntax().Pos()
	}
	return f.Pos()
}

func (e *SEnv) ident(name string) Val {
	if e.localsFirst && e.locSt == nil && e.fr != nil && e.fr.fn == e.fn {
		// (inside old() a parameter name denotes its value at entry)
		if _, isParam := e.fr.specVars[name]; isParam {
			if v, ok := e.fr.lookupLocal(e.localState(), name, e.block); ok {
				return v
			}
		}
	}
	if v, ok := e.vars[name]; ok {
		return v
	}
	if e.ct != nil {
		if le, ok := e.ct.Lets[name]; ok {
			return e.eval(le)
		}
	}
	if name == "result" {
		if len(e.results) == 1 {
			return e.results[0]
		}
		var all Val
		var vs []*types.Var
		for i, r := range e.results {
			all.S = append(all.S, r.S...)
			vs = append(vs, types.NewVar(token.NoPos, nil, fmt.Sprintf("r%d", i), r.T))
		}
		all.T = types.NewTuple(vs...)
		return all
	}
	// named results
	if e.fn != nil && e.results != nil {
		rs := e.fn.Signature.Results()
		for i := 0; i < rs.Len(); i++ {
			if rs.At(i).Name() == name && i < len(e.results) {
				return e.results[i]
			}
		}
	}
	// variable captured by a closure: read through its cell
	if e.fr != nil && e.fr.fn == e.fn && !e.inSpecFunc {
		for i, fv := range e.fn.FreeVars {
			if fv.Name() == name && i < len(e.fr.freeVars) {
				cell := e.fr.freeVars[i]
				if pt, ok := types.Unalias(fv.Type()).Underlying().(*types.Pointer); ok {
					return e.load(e.cur, cell.S[0], cell.S[1], pt.Elem())
				}
				return cell
			}
		}
	}
	// local variable of the function
	if e.fr != nil && e.fr.fn == e.fn && !e.inSpecFunc {
		// a local kept in memory: its address is a local matter, its content is
		// read in the state being inspected (old()/at() rewind the heap)
		if e.locSt != nil {
			if p, ok := e.fr.lookupLocalAddr(e.localState(), name, e.block); ok {
				if rv, isReg := e.fr.lookupLocal(e.localState(), name, e.block); isReg && p.S != nil {
					_ = rv
				}
				pt := types.Unalias(p.T).Underlying().(*types.Pointer)
				return e.load(e.cur, p.S[0], p.S[1], pt.Elem())
			}
		}
		if v, ok := e.fr.lookupLocal(e.localState(), name, e.block); ok {
			return v
		}
	}
	// package-level / imported objects
	pk := e.pkg()
	if pk != nil {
		_, obj := pk.Scope().Innermost(e.fnPos()).LookupParent(name, e.fnPos())
		if obj == nil {
			obj = pk.Scope().Lookup(name)
		}
		if obj != nil {
			return e.object(obj)
		}
	}
	e.fail("unknown identifier %q", name)
	return Val{}
}

func (e *SEnv) object(obj types.Object) Val {
	vc := e.vc
	switch o := obj.(type) {
	case *types.Const:
		return e.constant(o.Val(), o.Type())
	case *types.Var:
		if o.Pkg() != nil {
			if sp := vc.p.ssa.Package(o.Pkg()); sp != nil {
				if g, ok := sp.Members[o.Name()].(*ssa.Global); ok {
					if _, isArr := o.Type().Underlying().(*types.Array); isArr {
						// arrays are used through their address (indexing)
						return Val{T: types.NewPointer(o.Type()), S: []Term{tInt(int64(vc.p.globalRef(g))), "0"}}
					}
					return e.load(e.cur, tInt(int64(vc.p.globalRef(g))), "0", o.Type())
				}
			}
		}
	case *types.Nil:
		return Val{T: types.Typ[types.UntypedNil], S: []Term{"0", "0", "0"}}
	}
	e.fail("object %v not usable in a specification", obj)
	return Val{}
}

func (e *SEnv) constant(cv constant.Value, t types.Type) Val {
	vc := e.vc
	switch cv.Kind() {
	case constant.Bool:
		if constant.BoolVal(cv) {
			return Val{T: t, S: []Term{tTrue}}
		}
		return Val{T: t, S: []Term{tFalse}}
	case constant.Int:
		return Val{T: t, S: []Term{tBigInt(cv.ExactString())}}
	case constant.String:
		return Val{T: t, S: []Term{vc.strLit(constant.StringVal(cv))}}
	case constant.Float:
		if iv := constant.ToInt(cv); iv.Kind() == constant.Int {
			if vc.p.lay.of(t).Kinds[0] == KI {
				return Val{T: t, S: []Term{tBigInt(iv.ExactString())}}
			}
			return Val{T: t, S: []Term{sx("i2f", tBigInt(iv.ExactString()))}}
		}
		return Val{T: t, S: []Term{vc.fltLit(cv.ExactString())}}
	}
	e.fail("constant kind %v", cv.Kind())
	return Val{}
}

// selector: field access (with implicit dereference), tuple component,
// package-qualified name.
func (e *SEnv) selector(x *SSel) Val {
	vc := e.vc
	if id, ok := x.X.(*SIdent); ok {
		if _, bound := e.vars[id.Name]; !bound {
			if pk := e.pkg(); pk != nil {
				_, obj := pk.Scope().Innermost(e.fnPos()).LookupParent(id.Name, e.fnPos())
				if pn, ok := obj.(*types.PkgName); ok {
					o := pn.Imported().Scope().Lookup(x.Name)
					if o == nil {
						e.fail("%s.%s not found", id.Name, x.Name)
					}
					return e.object(o)
				}
			}
		}
	}
	base := e.eval(x.X)
	if n, err := strconv.Atoi(x.Name); err == nil {
		tp, ok := base.T.(*types.Tuple)
		if !ok {
			if n == 0 {
				return base
			}
			e.fail("tuple selector on %v", base.T)
		}
		off := vc.p.lay.tupleOffset(tp, n)
		sz := vc.p.lay.size(tp.At(n).Type())
		return Val{T: tp.At(n).Type(), S: base.S[off : off+sz]}
	}
	return e.fieldOf(base, x.Name)
}

func (e *SEnv) fieldOf(base Val, name string) Val {
	vc := e.vc
	obj, path, _ := types.LookupFieldOrMethod(base.T, true, e.pkg(), name)
	fv, ok := obj.(*types.Var)
	if !ok || !fv.IsField() {
		// specifications may read unexported fields of other packages
		if pk := declaringPkg(base.T); pk != nil {
			obj, path, _ = types.LookupFieldOrMethod(base.T, true, pk, name)
			fv, ok = obj.(*types.Var)
		}
	}
	if !ok || !fv.IsField() {
		e.fail("%v has no field %s", base.T, name)
	}
	// walk the path accumulating offsets; only pointer fields on the way and
	// the final field are loaded
	cur := base
	inMem := false // cur.S = (ref, off) address of a value of type curT
	curT := base.T
	var ref, off Term
	for _, idx := range path {
		t := types.Unalias(curT)
		if !inMem {
			if pt, isPtr := t.Underlying().(*types.Pointer); isPtr {
				ref, off = cur.S[0], cur.S[1]
				inMem = true
				t = types.Unalias(pt.Elem())
			}
		} else if pt, isPtr := t.Underlying().(*types.Pointer); isPtr {
			// pointer stored in memory: load it, continue at its target
			p := e.load(e.stOf(cur), ref, off, t)
			ref, off = p.S[0], p.S[1]
			t = types.Unalias(pt.Elem())
		}
		stt, isSt := t.Underlying().(*types.Struct)
		if !isSt {
			e.fail("field %s of non-struct %v", name, curT)
		}
		fo := vc.p.lay.fieldOffset(stt, idx)
		ft := stt.Field(idx).Type()
		if inMem {
			off = tAdd(off, tInt(int64(fo)))
		} else {
			cur = Val{T: ft, S: cur.S[fo : fo+vc.p.lay.size(ft)], Old: cur.Old}
		}
		curT = ft
	}
	if inMem {
		o := cur.Old
		r := e.load(e.stOf(cur), ref, off, curT)
		r.Old = o
		return r
	}
	return cur
}

// addr evaluates &expr for field selections and index expressions.
func (e *SEnv) addr(x SExpr) Val {
	vc := e.vc
	switch x := x.(type) {
	case *SSel:
		base := e.eval(x.X)
		obj, path, _ := types.LookupFieldOrMethod(base.T, true, e.pkg(), x.Name)
		fv, ok := obj.(*types.Var)
		if !ok {
			e.fail("&: no field %s", x.Name)
		}
		cur := base
		for i, idx := range path {
			pt, isPtr := types.Unalias(cur.T).Underlying().(*types.Pointer)
			if !isPtr {
				e.fail("&: base of %s is not addressable", x.Name)
			}
			stt := pt.Elem().Underlying().(*types.Struct)
			off := vc.p.lay.fieldOffset(stt, idx)
			ft := stt.Field(idx).Type()
			addr := Val{T: types.NewPointer(ft), S: []Term{cur.S[0], tAdd(cur.S[1], tInt(int64(off)))}}
			if i == len(path)-1 {
				return addr
			}
			if _, ptrField := ft.Underlying().(*types.Pointer); ptrField {
				cur = e.load(e.cur, addr.S[0], addr.S[1], ft)
			} else {
				cur = addr
			}
		}
		_ = fv
	case *SIdent:
		// address of a local variable that lives in memory
		if e.fr != nil && e.fr.fn == e.fn && !e.inSpecFunc {
			if v, ok := e.fr.lookupLocalAddr(e.localState(), x.Name, e.block); ok {
				return v
			}
		}
		e.fail("&%s: not an addressable local variable", x.Name)
	case *SIndex:
		base := e.eval(x.X)
		if sl, ok := types.Unalias(base.T).Underlying().(*types.Slice); ok {
			i := e.eval(x.I).S[0]
			es := vc.p.lay.size(sl.Elem())
			return Val{T: types.NewPointer(sl.Elem()), S: []Term{base.S[0], vc.elemOff(base.S[1], i, es)}}
		}
	}
	e.fail("& of unsupported expression")
	return Val{}
}

func (e *SEnv) index(x *SIndex) Val {
	vc := e.vc
	base := e.eval(x.X)
	t := types.Unalias(base.T)
	if pt, ok := t.Underlying().(*types.Pointer); ok {
		if arr, ok := pt.Elem().Underlying().(*types.Array); ok {
			i := e.eval(x.I).S[0]
			es := vc.p.lay.size(arr.Elem())
			r := e.load(e.stOf(base), base.S[0], vc.elemOff(base.S[1], i, es), arr.Elem())
			r.Old = base.Old
			return r
		}
	}
	switch u := t.Underlying().(type) {
	case *types.Slice:
		i := e.eval(x.I).S[0]
		es := vc.p.lay.size(u.Elem())
		r := e.load(e.stOf(base), base.S[0], vc.elemOff(base.S[1], i, es), u.Elem())
		r.Old = base.Old
		return r
	case *types.Basic:
		i := e.eval(x.I).S[0]
		return Val{T: types.Typ[types.Uint8], S: []Term{sx("sbyte", base.S[0], i)}}
	case *types.Map:
		k := e.eval(x.I)
		k.T = u.Key()
		if len(k.S) != vc.p.lay.size(u.Key()) {
			e.fail("map key shape")
		}
		v := vc.mapGetRaw(e.stOf(base), base.S[0], k, u.Elem())
		has := vc.mapHas(e.stOf(base), base.S[0], k)
		z := vc.zeroVal(u.Elem())
		out := Val{T: u.Elem(), Old: base.Old}
		has = e.qname(has, "Bool")
		eks := vc.p.lay.of(u.Elem()).Kinds
		for i := range v.S {
			out.S = append(out.S, e.qname(tIte(has, v.S[i], z.S[i]), eks[i].Sort()))
		}
		e.addFact(e.stOf(base), vc.wellTyped(e.stOf(base), out))
		return out
	case *types.Array:
		if c, ok := x.I.(*SInt); ok {
			i, _ := strconv.Atoi(c.V)
			es := vc.p.lay.size(u.Elem())
			return Val{T: u.Elem(), S: base.S[i*es : (i+1)*es]}
		}
	}
	e.fail("index on %v", base.T)
	return Val{}
}

func (e *SEnv) call(x *SCall) Val {
	vc := e.vc
	if id, ok := x.Fun.(*SIdent); ok {
		arg := func(i int) Val { return e.eval(x.Args[i]) }
		switch id.Name {
		case "old":
			n := e.sub()
			if n.locSt == nil {
				n.locSt = e.cur
			}
			n.cur = e.old
			if n.cur == nil {
				e.fail("old() not available here")
			}
			r := n.eval(x.Args[0])
			if r.Old == nil {
				r.Old = e.old
			}
			return r
		case "len":
			v := arg(0)
			switch u := types.Unalias(v.T).Underlying().(type) {
			case *types.Slice:
				return intVal(v.S[2])
			case *types.Basic:
				return intVal(sx("slen", v.S[0]))
			case *types.Map:
				if vc.inQuant == 0 {
					vc.assumeRaw(vc.mapLenFacts(e.stOf(v), v.S[0], u.Key()))
				}
				return intVal(tSel(vc.get(e.stOf(v), vc.mapLenKey()), v.S[0]))
			case *types.Array:
				return intVal(tInt(u.Len()))
			}
			e.fail("len of %v", v.T)
		case "cap":
			return intVal(arg(0).S[3])
		case "in":
			k, m := arg(0), arg(1)
			mt, ok := types.Unalias(m.T).Underlying().(*types.Map)
			if !ok {
				e.fail("in(k, m): m is %v", m.T)
			}
			k.T = mt.Key()
			return boolVal(vc.mapHas(e.stOf(m), m.S[0], k))
		case "fresh":
			v := arg(0)
			if e.old == nil {
				e.fail("fresh() needs an old state")
			}
			return boolVal(tAnd(tNot(tEq(v.S[0], "0")), tNot(vc.isAlloc(e.old, v.S[0])), vc.isAlloc(e.cur, v.S[0])))
		case "allocated":
			return boolVal(vc.isAlloc(e.cur, arg(0).S[0]))
		case "calls":
			lab := x.Args[0].(*SIdent).Name
			key := "g.calls." + lab
			vc.ensureKey(key, "Int")
			return intVal(vc.get(e.cur, key))
		case "first":
			// first(Label): result of the first call counted under Label
			lab := x.Args[0].(*SIdent).Name
			t, ok := vc.lastType[lab]
			if !ok {
				e.fail("first(%s): no counted call seen", lab)
			}
			v := Val{T: t}
			for i := range vc.p.lay.of(t).Kinds {
				v.S = append(v.S, vc.get(e.cur, fmt.Sprintf("g.first.%s:%d", lab, i)))
			}
			return v
		case "alltrue":
			// alltrue(Label): every call counted under Label so far returned true
			lab := x.Args[0].(*SIdent).Name
			ak := "g.all." + lab
			vc.ensureKey(ak, "Bool")
			return boolVal(vc.get(e.cur, ak))
		case "before":
			// before(Label, e): e evaluated in the state right before the most
			// recent call counted under Label
			lab := x.Args[0].(*SIdent).Name
			snap, ok := vc.beforeState[lab]
			if !ok {
				e.fail("before(%s, ...): no counted call seen", lab)
			}
			n := e.sub()
			if n.locSt == nil {
				n.locSt = e.cur
			}
			n.cur = snap
			return n.eval(x.Args[1])
		case "at":
			// at(Label, e): e evaluated in the state right after the most recent
			// call counted under Label (the call must dominate this point)
			lab := x.Args[0].(*SIdent).Name
			snap, ok := vc.lastState[lab]
			if !ok {
				e.fail("at(%s, ...): no counted call seen", lab)
			}
			n := e.sub()
			if n.locSt == nil {
				n.locSt = e.cur
			}
			n.cur = snap
			return n.eval(x.Args[1])
		case "last":
			// last(Label): result of the most recent call counted under Label
			lab := x.Args[0].(*SIdent).Name
			t, ok := vc.lastType[lab]
			if !ok {
				e.fail("last(%s): no counted call seen", lab)
			}
			v := Val{T: t}
			for i := range vc.p.lay.of(t).Kinds {
				// (unconstrained on paths where no such call happened)
				v.S = append(v.S, vc.get(e.cur, fmt.Sprintf("g.last.%s:%d", lab, i)))
			}
			return v
		case "clock":
			vc.ensureKey("g.clock", "Int")
			return intVal(vc.get(e.cur, "g.clock"))
		case "held":
			v := arg(0)
			if len(v.S) != 1 {
				e.fail("held(mu): mutex value expected")
			}
			return boolVal(v.S[0])
		case "instant":
			return intVal(sx("instant", arg(0).S[0]))
		case "max":
			a, b := e.unify(arg(0), arg(1))
			return Val{T: a.T, S: []Term{sx("imax", a.S[0], b.S[0])}}
		case "min":
			a, b := e.unify(arg(0), arg(1))
			return Val{T: a.T, S: []Term{sx("imin", a.S[0], b.S[0])}}
		case "hasPrefix":
			return boolVal(sx("sprefix", arg(0).S[0], arg(1).S[0]))
		case "hasSuffix":
			return boolVal(sx("ssuffix", arg(0).S[0], arg(1).S[0]))
		case "contains":
			return boolVal(sx("scontains", arg(0).S[0], arg(1).S[0]))
		case "trimRight":
			vc.declareUF("strimright", "(Str Str) Str")
			return Val{T: tyString, S: []Term{sx("strimright", arg(0).S[0], arg(1).S[0])}}
		case "lower":
			return Val{T: tyString, S: []Term{sx("slower", arg(0).S[0])}}
		case "typeIs":
			// typeIs(x, T): dynamic type of interface value x is T
			v := arg(0)
			t := e.resolveType(exprText(x.Args[1]))
			return boolVal(tEq(v.S[0], tInt(int64(vc.p.typeID(t)))))
		case "iface":
			// iface(p): the interface value obtained by converting pointer p
			v := arg(0)
			if _, ok := types.Unalias(v.T).Underlying().(*types.Pointer); ok {
				return Val{T: types.NewInterfaceType(nil, nil), S: []Term{tInt(int64(vc.p.typeID(v.T))), v.S[0], v.S[1]}}
			}
			if ks := vc.p.lay.of(v.T).Kinds; len(ks) == 1 && ks[0] == KI {
				return Val{T: types.NewInterfaceType(nil, nil), S: []Term{tInt(int64(vc.p.typeID(v.T))), v.S[0], "0"}}
			}
			e.fail("iface(x): pointer, map or integer expected")
		case "cur":
			// cur(x): x without its old()/at() tag, so that what it points to is
			// read in the current state
			v := arg(0)
			v.Old = nil
			return v
		case "isnil":
			return boolVal(tEq(arg(0).S[0], "0"))
		case "ref":
			return intVal(arg(0).S[0])
		case "$idx":
			k, _ := strconv.Atoi(x.Args[0].(*SInt).V)
			return intVal(e.fr.rangeIndex(e.localState(), k))
		case "$head":
			if e.headSt == nil {
				e.fail("$head() is available in loop step clauses only")
			}
			n := e.sub()
			n.cur = e.headSt
			n.locSt = e.headSt
			n.headSt = nil
			return n.eval(x.Args[0])
		case "$headof":
			// $headof(k, e): e at the start of the current iteration of loop k (an
			// enclosing loop); usable in invariants and step clauses of inner loops
			k, _ := strconv.Atoi(x.Args[0].(*SInt).V)
			var hs *State
			for _, li := range e.fr.loops {
				if li.ord == k {
					hs = li.headSt
				}
			}
			if hs == nil {
				e.fail("$headof(%d, ...): loop %d has not been entered", k, k)
			}
			n := e.sub()
			n.cur = hs
			n.locSt = hs
			n.headSt = nil
			return n.eval(x.Args[1])
		case "$headmem":
			// memory (heap, maps) as at the start of the iteration, locals as they are now
			if e.headSt == nil {
				e.fail("$headmem() is available in loop step clauses only")
			}
			n := e.sub()
			n.cur = e.headSt
			if n.locSt == nil {
				n.locSt = e.cur
			}
			n.headSt = nil
			return n.eval(x.Args[0])
		case "$rng":
			k, _ := strconv.Atoi(x.Args[0].(*SInt).V)
			return e.fr.rangeValue(e.localState(), k)
		case "$seen":
			k, _ := strconv.Atoi(x.Args[0].(*SInt).V)
			return boolVal(tSel(e.fr.rangeSeen(e.localState(), k), vc.keyTerm(arg(1))))
		case "$dom0":
			k, _ := strconv.Atoi(x.Args[0].(*SInt).V)
			return boolVal(tSel(e.fr.rangeDom0(e.cur, k), vc.keyTerm(arg(1))))
		}
		if sf, ok := vc.p.specFuncs[id.Name]; ok {
			return e.specCall(sf, x.Args)
		}
		// function of the package under verification
		if pk := e.pkg(); pk != nil {
			if o, ok := pk.Scope().Lookup(id.Name).(*types.Func); ok {
				fn := vc.p.ssa.FuncValue(o)
				var args []Val
				for _, a := range x.Args {
					args = append(args, e.eval(a))
				}
				return e.pureCall(fn, args)
			}
		}
		e.fail("unknown function %q", id.Name)
	}
	if sel, ok := x.Fun.(*SSel); ok {
		// pkg.Func(...) or recv.Method(...)
		if id, ok := sel.X.(*SIdent); ok {
			if _, bound := e.vars[id.Name]; !bound {
				if pk := e.pkg(); pk != nil {
					_, obj := pk.Scope().Innermost(e.fnPos()).LookupParent(id.Name, e.fnPos())
					if pn, ok := obj.(*types.PkgName); ok {
						o, _ := pn.Imported().Scope().Lookup(sel.Name).(*types.Func)
						if o == nil {
							e.fail("%s.%s is not a function", id.Name, sel.Name)
						}
						var args []Val
						for _, a := range x.Args {
							args = append(args, e.eval(a))
						}
						return e.pureCall(vc.p.ssa.FuncValue(o), args)
					}
				}
			}
		}
		recv := e.eval(sel.X)
		obj, path, indirect := types.LookupFieldOrMethod(recv.T, true, e.pkg(), sel.Name)
		m, ok := obj.(*types.Func)
		if !ok {
			e.fail("%v has no method %s", recv.T, sel.Name)
		}
		_ = indirect
		// walk embedded path to the receiver
		for _, idx := range path[:len(path)-1] {
			t := types.Unalias(recv.T)
			if pt, isPtr := t.Underlying().(*types.Pointer); isPtr {
				stt := pt.Elem().Underlying().(*types.Struct)
				off := vc.p.lay.fieldOffset(stt, idx)
				ft := stt.Field(idx).Type()
				if _, fp := ft.Underlying().(*types.Pointer); fp {
					recv = e.load(e.cur, recv.S[0], tAdd(recv.S[1], tInt(int64(off))), ft)
				} else {
					recv = Val{T: types.NewPointer(ft), S: []Term{recv.S[0], tAdd(recv.S[1], tInt(int64(off)))}}
				}
			} else {
				stt := t.Underlying().(*types.Struct)
				off := vc.p.lay.fieldOffset(stt, idx)
				ft := stt.Field(idx).Type()
				recv = Val{T: ft, S: recv.S[off : off+vc.p.lay.size(ft)]}
			}
		}
		fn := vc.p.ssa.FuncValue(m)
		if fn == nil {
			// interface method: usable in a specification when it has a getter contract
			key := "(" + shortenPaths(types.TypeString(types.Unalias(recv.T), nil)) + ")." + sel.Name
			if ct := vc.p.contracts[key]; ct != nil && ct.Getter {
				args := []Val{recv}
				for _, a := range x.Args {
					args = append(args, e.eval(a))
				}
				r := vc.getterUF(key, args, vc.resultType(m.Type().(*types.Signature)))
				e.addFact(e.cur, vc.wellTyped(e.cur, r))
				e.getterEnsures(ct, r, args, m.Type().(*types.Signature))
				return r
			}
			e.fail("method %s has no SSA function and no getter contract (%s)", sel.Name, key)
		}
		if ct := vc.p.contracts[funcKey(fn)]; ct != nil && ct.Getter {
			args := []Val{recv}
			for _, a := range x.Args {
				args = append(args, e.eval(a))
			}
			r := vc.getterUF(funcKey(fn), args, vc.resultType(fn.Signature))
			e.addFact(e.cur, vc.wellTyped(e.cur, r))
			e.getterEnsures(ct, r, args, fn.Signature)
			return r
		}
		// adapt receiver: value vs pointer
		sig := m.Type().(*types.Signature)
		wantPtr := false
		if _, ok := sig.Recv().Type().Underlying().(*types.Pointer); ok {
			wantPtr = true
		}
		_, havePtr := types.Unalias(recv.T).Underlying().(*types.Pointer)
		if wantPtr && !havePtr {
			// take the address of an addressable receiver expression (x.f, s[i])
			func() {
				defer func() {
					if r := recover(); r != nil {
						if _, isU := r.(unsupported); isU {
							e.fail("method %s needs an addressable receiver", sel.Name)
						}
						panic(r)
					}
				}()
				recv = e.addr(sel.X)
			}()
		}
		if !wantPtr && havePtr {
			pt := types.Unalias(recv.T).Underlying().(*types.Pointer)
			recv = e.load(e.cur, recv.S[0], recv.S[1], pt.Elem())
		}
		args := []Val{recv}
		for _, a := range x.Args {
			args = append(args, e.eval(a))
		}
		return e.pureCall(fn, args)
	}
	e.fail("unsupported call expression")
	return Val{}
}

func exprText(x SExpr) string {
	switch x := x.(type) {
	case *SIdent:
		return x.Name
	case *SSel:
		return exprText(x.X) + "." + x.Name
	case *SUn:
		return x.Op + exprText(x.X)
	}
	return "?"
}

func (e *SEnv) specCall(sf *SpecFunc, argx []SExpr) Val {
	vc := e.vc
	if len(argx) != len(sf.Params) {
		e.fail("spec func %s: %d arguments, want %d", sf.Name, len(argx), len(sf.Params))
	}
	var ctx *types.Package
	if sf.PkgPath != "" {
		if pk := vc.p.byPath[sf.PkgPath]; pk != nil && pk.Types != e.pkg() {
			ctx = pk.Types
		}
	}
	tenv := e
	if ctx != nil {
		tenv = e.sub()
		tenv.pkgCtx = ctx
	}
	var args []Val
	for i, a := range argx {
		v := e.eval(a)
		pt := tenv.resolveType(sf.Params[i].Type)
		if isUntypedNil(v.T) {
			v = vc.zeroVal(pt)
		}
		if len(v.S) != vc.p.lay.size(pt) {
			e.fail("spec func %s: argument %d has shape of %v, want %v", sf.Name, i, v.T, pt)
		}
		v.T = pt
		args = append(args, v)
	}
	if sf.Body == nil {
		// uninterpreted function of the argument slots
		rt := tenv.resolveType(sf.Result)
		var sorts, terms []string
		for _, a := range args {
			for i, k := range vc.p.lay.of(a.T).Kinds {
				sorts = append(sorts, k.Sort())
				terms = append(terms, a.S[i])
			}
		}
		out := Val{T: rt}
		for i, k := range vc.p.lay.of(rt).Kinds {
			name := fmt.Sprintf("ghost.%s.%d", sf.Name, i)
			vc.declareUF(name, "("+strings.Join(sorts, " ")+") "+k.Sort())
			if len(terms) == 0 {
				out.S = append(out.S, name)
			} else {
				out.S = append(out.S, sx(name, terms...))
			}
		}
		return out
	}
	if e.depth > 12 {
		e.fail("spec func recursion too deep at %s", sf.Name)
	}
	n := e.sub()
	n.depth = e.depth + 1
	// spec funcs see only their parameters (plus state)
	n.vars = map[string]Val{}
	for i, p := range sf.Params {
		n.vars[p.Name] = args[i]
	}
	n.ct = nil
	n.localsFirst = false
	n.inSpecFunc = true
	n.results = nil
	if ctx != nil {
		n.pkgCtx = ctx
	}
	return n.eval(sf.Body)
}

// pureCall evaluates a call to real code inside a specification: the callee is
// executed symbolically on a scratch copy of the state; effects are discarded.
func (e *SEnv) pureCall(fn *ssa.Function, args []Val) Val {
	vc := e.vc
	if fn == nil {
		e.fail("call of a function without SSA")
	}
	key := funcKey(fn)
	if ct := vc.p.contracts[key]; ct != nil && ct.Pure {
		return vc.pureUF(fn, ct, args)
	}
	if fn.Blocks == nil || len(findLoops(fn)) > 0 {
		e.fail("function %s cannot be expanded in a specification (no body or has loops); give it a pure contract", key)
	}
	for i, p := range fn.Params {
		if i < len(args) {
			if isUntypedNil(args[i].T) {
				args[i] = vc.zeroVal(p.Type())
			}
			args[i].T = p.Type()
		}
	}
	saveQuiet := vc.quiet
	savePos := vc.curPos
	vc.quiet = true
	defer func() { vc.quiet = saveQuiet; vc.curPos = savePos }()
	st := e.cur.clone()
	st.pc = tTrue
	depth := 1
	if e.fr != nil {
		depth = e.fr.depth + 1
	}
	res, ok := vc.inlineCall(st, fn, args, nil, depth)
	if !ok {
		e.fail("function %s never returns normally", key)
	}
	return res
}

func dedupTerms(ts []Term) []Term {
	seen := map[Term]bool{}
	var out []Term
	for _, t := range ts {
		if !seen[t] {
			seen[t] = true
			out = append(out, t)
		}
	}
	return out
}

// getterEnsures records the ensures clauses of a getter contract as facts of
// this application.
func (e *SEnv) getterEnsures(ct *Contract, res Val, args []Val, sig *types.Signature) {
	vc := e.vc
	if vc.inQuant > 0 {
		return
	}
	env := &SEnv{vc: vc, fr: e.fr, fn: e.fn, cur: e.cur, old: e.cur, vars: map[string]Val{}, ct: ct, assumeMode: true}
	bindParams(env, paramNames(nil, sig, true), args)
	env.results = splitResults(vc, res, sig)
	for _, en := range ct.Ensures {
		vc.assume(e.cur, env.evalBool(en.Expr))
	}
}

func declaringPkg(t types.Type) *types.Package {
	t = types.Unalias(t)
	if p, ok := t.Underlying().(*types.Pointer); ok {
		t = types.Unalias(p.Elem())
	}
	if n, ok := t.(*types.Named); ok && n.Obj() != nil {
		return n.Obj().Pkg()
	}
	return nil
}
