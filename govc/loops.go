package main

// Effects of a loop body: which locals, heap kinds and map arrays it writes,
// and — where every write can be traced to a loop-invariant root — which
// objects, so that the havoc at the loop head keeps everything else.

import (
	"go/token"
	"go/types"
	"sort"

	"golang.org/x/tools/go/ssa"
)

type loopEffects struct {
	locals     []*ssa.Alloc
	extraKeys  []string
	heapAll    bool
	kinds      map[string]bool
	unresolved map[string]bool
	targets    []modTarget
	counters   []string
}

func (fr *Frame) loopEffects(pre *State, li *loopInfo) *loopEffects {
	vc := fr.vc
	eff := &loopEffects{kinds: map[string]bool{}, unresolved: map[string]bool{}}
	seenLocal := map[*ssa.Alloc]bool{}
	var bs []*ssa.BasicBlock
	for b := range li.blocks {
		bs = append(bs, b)
	}
	sort.Slice(bs, func(i, j int) bool { return bs[i].Index < bs[j].Index })
	// pass 1: locals written, field signatures stored
	storedField := map[string]bool{}
	writtenLocal := map[*ssa.Alloc]bool{}
	for _, b := range bs {
		for _, in := range b.Instrs {
			switch x := in.(type) {
			case *ssa.Alloc:
				if fr.reg[x] {
					writtenLocal[x] = true
				}
			case *ssa.Store:
				if a, _, _, ok := fr.localRoot(x.Addr); ok {
					writtenLocal[a] = true
				} else if fa, ok := x.Addr.(*ssa.FieldAddr); ok {
					storedField[fieldSig(fa)] = true
				}
			}
		}
	}
	for _, b := range bs {
		for _, in := range b.Instrs {
			if a, ok := in.(*ssa.Alloc); ok && fr.reg[a] && !seenLocal[a] {
				seenLocal[a] = true
				eff.locals = append(eff.locals, a)
			}
			if s, ok := in.(*ssa.Store); ok {
				if a, _, _, ok := fr.localRoot(s.Addr); ok && !seenLocal[a] {
					seenLocal[a] = true
					eff.locals = append(eff.locals, a)
				}
			}
		}
	}
	touchAlloc := false
	markKinds := func(t types.Type, resolved bool) {
		for _, k := range vc.p.lay.of(t).Kinds {
			key := vc.heapKey(k)
			eff.kinds[key] = true
			if !resolved {
				eff.unresolved[key] = true
			}
		}
	}
	markMap := func(mt *types.Map, resolved bool) {
		keys := []string{vc.mapDomKey(mt.Key()), vc.mapLenKey()}
		for _, k := range vc.p.lay.of(mt.Elem()).Kinds {
			keys = append(keys, vc.mapValKey(mt.Key(), k))
		}
		for _, key := range keys {
			eff.kinds[key] = true
			if !resolved {
				eff.unresolved[key] = true
			}
		}
	}
	// root resolution ------------------------------------------------------
	var rootVal func(v ssa.Value, depth int) (Val, bool, bool) // value, ok, fresh-in-loop
	rootVal = func(v ssa.Value, depth int) (Val, bool, bool) {
		if depth > 8 {
			return Val{}, false, false
		}
		in, isInstr := v.(ssa.Instruction)
		if !isInstr || !li.blocks[in.Block()] {
			// defined outside the loop
			switch v.(type) {
			case *ssa.Alloc:
				if a := v.(*ssa.Alloc); fr.reg[a] {
					return Val{}, false, false
				}
			}
			val, ok := fr.tryVal(pre, v)
			return val, ok, false
		}
		switch x := v.(type) {
		case *ssa.Alloc, *ssa.MakeSlice, *ssa.MakeMap:
			return Val{}, true, true
		case *ssa.FieldAddr:
			return rootVal(x.X, depth+1)
		case *ssa.IndexAddr:
			return rootVal(x.X, depth+1)
		case *ssa.Slice:
			return rootVal(x.X, depth+1)
		case *ssa.ChangeType:
			return rootVal(x.X, depth+1)
		case *ssa.UnOp:
			if x.Op != token.MUL {
				return Val{}, false, false
			}
			if a, ok := x.X.(*ssa.Alloc); ok && fr.reg[a] {
				if writtenLocal[a] {
					// a temporary declared inside the loop and assigned once (p := &x.f):
					// follow the value it was given
					if sv := singleStore(a); sv != nil && li.blocks[a.Block()] {
						return rootVal(sv, depth+1)
					}
					return Val{}, false, false
				}
				return fr.getLocal(pre, a), true, false
			}
			if a, off, t, ok := fr.localRoot(x.X); ok {
				if writtenLocal[a] {
					return Val{}, false, false
				}
				whole := fr.getLocal(pre, a)
				return Val{T: t, S: whole.S[off : off+vc.p.lay.size(t)]}, true, false
			}
			// heap load of a field of a root-only struct that the loop never stores
			if fa, ok := x.X.(*ssa.FieldAddr); ok {
				st := fa.X.Type().Underlying().(*types.Pointer).Elem()
				if vc.p.rootOnly(st) && !storedField[fieldSig(fa)] {
					base, ok, fresh := rootVal(fa.X, depth+1)
					if !ok || fresh {
						return Val{}, false, false
					}
					stt := st.Underlying().(*types.Struct)
					off := vc.p.lay.fieldOffset(stt, fa.Field)
					return vc.loadAt(pre, base.S[0], tAdd(base.S[1], tInt(int64(off))), stt.Field(fa.Field).Type()), true, false
				}
			}
		}
		return Val{}, false, false
	}
	// static type of the object an address points into, when it is root-only
	var objType func(v ssa.Value, depth int) types.Type
	objType = func(v ssa.Value, depth int) types.Type {
		if depth > 6 {
			return nil
		}
		switch x := v.(type) {
		case *ssa.FieldAddr:
			st := x.X.Type().Underlying().(*types.Pointer).Elem()
			if vc.p.rootOnly(st) {
				return st
			}
			return objType(x.X, depth+1)
		case *ssa.IndexAddr:
			if pt, ok := x.X.Type().Underlying().(*types.Pointer); ok {
				_ = pt
				return objType(x.X, depth+1)
			}
			return x.X.Type() // slice backing array: dynamic type is the slice type
		}
		if u, ok := v.(*ssa.UnOp); ok && u.Op == token.MUL {
			if a, ok := u.X.(*ssa.Alloc); ok && fr.reg[a] {
				if sv := singleStore(a); sv != nil {
					if t := objType(sv, depth+1); t != nil {
						return t
					}
				}
			}
		}
		if pt, ok := v.Type().Underlying().(*types.Pointer); ok && vc.p.rootOnly(pt.Elem()) {
			return pt.Elem()
		}
		return nil
	}
	addObj := func(v ssa.Value, t types.Type) {
		val, ok, fresh := rootVal(v, 0)
		if !ok {
			if ot := objType(v, 0); ot != nil {
				eff.targets = append(eff.targets, modTarget{kind: "type", tid: vc.p.objID(ot)})
				markKinds(t, true)
				return
			}
		}
		if ok && fresh {
			markKinds(t, true)
			return
		}
		if ok && len(val.S) > 0 {
			eff.targets = append(eff.targets, modTarget{kind: "obj", ref: val.S[0], kinds: vc.p.lay.of(t).Kinds})
			markKinds(t, true)
			return
		}
		markKinds(t, false)
	}
	for _, b := range bs {
		for _, in := range b.Instrs {
			switch x := in.(type) {
			case *ssa.Alloc:
				if !fr.reg[x] {
					touchAlloc = true
					markKinds(x.Type().(*types.Pointer).Elem(), true) // fresh object
				}
			case *ssa.Store:
				if _, _, _, ok := fr.localRoot(x.Addr); ok {
					continue
				}
				addObj(x.Addr, x.Val.Type())
			case *ssa.MapUpdate:
				mt := x.Map.Type().Underlying().(*types.Map)
				val, ok, fresh := rootVal(x.Map, 0)
				switch {
				case ok && fresh:
					markMap(mt, true)
				case ok:
					eff.targets = append(eff.targets, modTarget{kind: "map", ref: val.S[0], keyT: mt.Key(), valT: mt.Elem()})
					markMap(mt, true)
				default:
					markMap(mt, false)
				}
			case *ssa.MakeMap:
				touchAlloc = true
				mt := x.Type().Underlying().(*types.Map)
				eff.kinds[vc.mapDomKey(mt.Key())] = true
				eff.kinds[vc.mapLenKey()] = true
			case *ssa.MakeSlice:
				touchAlloc = true
				markKinds(x.Type().Underlying().(*types.Slice).Elem(), true)
			case *ssa.MakeInterface:
				if ks := vc.p.lay.of(x.X.Type()).Kinds; len(ks) == 1 && ks[0] == KI {
					continue
				}
				if _, isPtr := x.X.Type().Underlying().(*types.Pointer); !isPtr {
					if _, isI := x.X.Type().Underlying().(*types.Interface); !isI {
						touchAlloc = true
						markKinds(x.X.Type(), true)
					}
				}
			case *ssa.Range:
				eff.extraKeys = append(eff.extraKeys, fr.rangeKey(x), fr.rangeKey(x)+":dom0")
			case *ssa.Next:
				if rg, ok := x.Iter.(*ssa.Range); ok {
					eff.extraKeys = append(eff.extraKeys, fr.rangeKey(rg))
				}
			case *ssa.Convert:
				if vc.p.lay.size(x.Type()) == 4 && vc.p.lay.size(x.X.Type()) == 1 {
					touchAlloc = true
					markKinds(types.Typ[types.Int], true)
				}
			case *ssa.MakeClosure, *ssa.Defer, *ssa.Go:
				touchAlloc = true
			case ssa.CallInstruction:
				c := x.Common()
				fr.loopCallEffects(pre, li, eff, c, rootVal, markKinds, markMap, &touchAlloc)
			}
		}
	}
	if touchAlloc {
		eff.kinds[vc.allocKey()] = true
	}
	return eff
}

func fieldSig(fa *ssa.FieldAddr) string {
	st := fa.X.Type().Underlying().(*types.Pointer).Elem()
	return types.TypeString(st, nil) + "#" + string(rune('0'+fa.Field/10)) + string(rune('0'+fa.Field%10))
}

// tryVal is fr.val without panics.
func (fr *Frame) tryVal(st *State, v ssa.Value) (val Val, ok bool) {
	defer func() {
		if r := recover(); r != nil {
			if _, u := r.(unsupported); u {
				ok = false
				return
			}
			panic(r)
		}
	}()
	return fr.val(st, v), true
}

func (fr *Frame) loopCallEffects(pre *State, li *loopInfo, eff *loopEffects, c *ssa.CallCommon,
	rootVal func(ssa.Value, int) (Val, bool, bool), markKinds func(types.Type, bool), markMap func(*types.Map, bool), touchAlloc *bool) {
	vc := fr.vc
	if b, ok := c.Value.(*ssa.Builtin); ok {
		switch b.Name() {
		case "append":
			*touchAlloc = true
			st := c.Args[0].Type().Underlying().(*types.Slice)
			// in-place writes go to the array of the first argument
			val, ok, fresh := fr.appendRoot(pre, li, c.Args[0], rootVal)
			switch {
			case ok && fresh:
				markKinds(st.Elem(), true)
			case ok:
				eff.targets = append(eff.targets, modTarget{kind: "obj", ref: val.S[0], kinds: vc.p.lay.of(st.Elem()).Kinds})
				markKinds(st.Elem(), true)
			default:
				markKinds(st.Elem(), false)
			}
		case "delete":
			mt := c.Args[0].Type().Underlying().(*types.Map)
			val, ok, fresh := rootVal(c.Args[0], 0)
			switch {
			case ok && fresh:
				markMap(mt, true)
			case ok:
				eff.targets = append(eff.targets, modTarget{kind: "map", ref: val.S[0], keyT: mt.Key(), valT: mt.Elem()})
				markMap(mt, true)
			default:
				markMap(mt, false)
			}
		case "copy", "clear":
			eff.heapAll = true
		}
		return
	}
	key := ""
	var callee *ssa.Function
	if c.IsInvoke() {
		key = ifaceMethodKey(c)
	} else if f, ok := c.Value.(*ssa.Function); ok {
		if f.Origin() != nil {
			f = f.Origin()
		}
		callee = f
		key = funcKey(f)
	} else if mc, ok := c.Value.(*ssa.MakeClosure); ok {
		callee = mc.Fn.(*ssa.Function)
		key = funcKey(callee)
	}
	for _, lab := range vc.p.countOf[key] {
		if vc.labels[lab] {
			eff.counters = append(eff.counters, lab)
		}
	}
	if fr.callIsPure(c) {
		return
	}
	// labels whose counters the callee may bump through calls it makes itself
	if ct := vc.p.contracts[key]; ct == nil || !ct.HasMod {
		for lab := range vc.labels {
			one := map[string]bool{lab: true}
			if vc.p.mayReachCounted(c, callee, one) {
				eff.counters = append(eff.counters, lab)
			}
		}
	}
	if callee != nil && vc.p.contracts[key] == nil && fr.canInline(callee) && fr.effectFree(callee, 0) {
		// inlinable callee that only reads and allocates
		*touchAlloc = true
		for _, k := range allKinds {
			eff.kinds[vc.heapKey(k)] = true // fresh objects only; pre-existing ones keep their content
		}
		return
	}
	if _, isModel := models[key]; isModel {
		// impure models: clock / mutex
		switch key {
		case "time.Now", "time.Until", "time.Since":
			vc.ensureKey("g.clock", "Int")
			eff.kinds["g.clock"] = true
			eff.unresolved["g.clock"] = true
			return
		}
		eff.heapAll = true
		return
	}
	ct := vc.p.contracts[key]
	if ct != nil && ct.HasMod && !ct.Inline {
		*touchAlloc = true
		// evaluate the modifies clause with loop-invariant arguments
		ok := func() (ok bool) {
			defer func() {
				if r := recover(); r != nil {
					if _, u := r.(unsupported); u {
						ok = false
						return
					}
					panic(r)
				}
			}()
			envFn := callee
			if envFn == nil {
				envFn = fr.fn
			}
			env := &SEnv{vc: vc, fr: fr, fn: envFn, cur: pre, old: pre, vars: map[string]Val{}, ct: ct}
			names := paramNames(callee, c.Signature(), callee == nil)
			var argVals []ssa.Value
			if c.IsInvoke() {
				argVals = append(argVals, c.Value)
			}
			argVals = append(argVals, c.Args...)
			for i, a := range argVals {
				val, ok, fresh := rootValOrConst(a, rootVal)
				if !ok || fresh {
					continue // unbound: evaluation fails if the clause needs it
				}
				val.T = a.Type()
				if i < len(names) && names[i] != "" && names[i] != "_" {
					env.vars[names[i]] = val
				}
			}
			env.fr = &Frame{vc: vc, fn: envFn} // no access to caller locals
			ts := env.modTargets(ct.Modifies)
			for _, t := range ts {
				switch t.kind {
				case "all":
					return false
				case "counter":
					eff.counters = append(eff.counters, t.name)
				case "clock":
					vc.ensureKey("g.clock", "Int")
					eff.kinds["g.clock"] = true
					eff.unresolved["g.clock"] = true
				case "map":
					eff.targets = append(eff.targets, t)
					markMap(types.NewMap(t.keyT, t.valT), true)
				case "obj":
					eff.targets = append(eff.targets, t)
					for _, k := range allKinds {
						eff.kinds[vc.heapKey(k)] = true
					}
				case "slot":
					eff.targets = append(eff.targets, t)
					for _, k := range t.kinds {
						eff.kinds[vc.heapKey(k)] = true
					}
				}
			}
			return true
		}()
		if ok {
			return
		}
	}
	eff.heapAll = true
}

func rootValOrConst(v ssa.Value, rootVal func(ssa.Value, int) (Val, bool, bool)) (Val, bool, bool) {
	return rootVal(v, 0)
}

// appendRoot: the array written in place by append(s, ...) inside a loop.  If
// s is a local that the loop only ever assigns results of append(s, ...) to,
// the only pre-existing array that can be written is the one s has on entry.
func (fr *Frame) appendRoot(pre *State, li *loopInfo, s ssa.Value, rootVal func(ssa.Value, int) (Val, bool, bool)) (Val, bool, bool) {
	if val, ok, fresh := rootVal(s, 0); ok {
		return val, ok, fresh
	}
	u, ok := s.(*ssa.UnOp)
	if !ok || u.Op != token.MUL {
		return Val{}, false, false
	}
	a, ok := u.X.(*ssa.Alloc)
	if !ok || !fr.reg[a] {
		return Val{}, false, false
	}
	// every store to a inside the loop must be the result of append(*a, ...)
	for _, r := range *a.Referrers() {
		st, ok := r.(*ssa.Store)
		if !ok || !li.blocks[st.Block()] {
			continue
		}
		call, ok := st.Val.(*ssa.Call)
		if !ok {
			return Val{}, false, false
		}
		b, ok := call.Call.Value.(*ssa.Builtin)
		if !ok || b.Name() != "append" {
			return Val{}, false, false
		}
		l, ok := call.Call.Args[0].(*ssa.UnOp)
		if !ok || l.X != ssa.Value(a) {
			return Val{}, false, false
		}
	}
	if _, ok := pre.v[fr.localKey(a, 0)]; !ok {
		return Val{}, true, true // declared inside the loop: starts nil
	}
	return fr.getLocal(pre, a), true, false
}

// effectFree: the function (and what it calls) writes only to its own locals
// and to objects it allocates itself.
func (fr *Frame) effectFree(fn *ssa.Function, depth int) bool {
	vc := fr.vc
	if depth > 4 || fn.Blocks == nil {
		return false
	}
	if v, ok := vc.p.effFree[fn]; ok {
		return v
	}
	vc.p.effFree[fn] = false // recursion guard
	ok := true
	nf := &Frame{vc: vc, fn: fn, reg: map[*ssa.Alloc]bool{}}
	fresh := map[ssa.Value]bool{}
	for _, b := range fn.Blocks {
		for _, in := range b.Instrs {
			if a, isA := in.(*ssa.Alloc); isA {
				if isRegister(a) {
					nf.reg[a] = true
				} else {
					fresh[a] = true
				}
			}
			switch x := in.(type) {
			case *ssa.MakeSlice, *ssa.MakeMap:
				fresh[x.(ssa.Value)] = true
			}
		}
	}
	var rootFresh func(v ssa.Value, d int) bool
	rootFresh = func(v ssa.Value, d int) bool {
		if d > 6 {
			return false
		}
		if fresh[v] {
			return true
		}
		switch x := v.(type) {
		case *ssa.FieldAddr:
			return rootFresh(x.X, d+1)
		case *ssa.IndexAddr:
			return rootFresh(x.X, d+1)
		case *ssa.Slice:
			return rootFresh(x.X, d+1)
		}
		return false
	}
	for _, b := range fn.Blocks {
		for _, in := range b.Instrs {
			switch x := in.(type) {
			case *ssa.Store:
				if _, _, _, isLocal := nf.localRoot(x.Addr); isLocal {
					continue
				}
				if !rootFresh(x.Addr, 0) {
					ok = false
				}
			case *ssa.MapUpdate:
				if !rootFresh(x.Map, 0) {
					ok = false
				}
			case *ssa.Go, *ssa.Send, *ssa.Select, *ssa.Defer:
				ok = false
			case ssa.CallInstruction:
				c := x.Common()
				if bi, isB := c.Value.(*ssa.Builtin); isB {
					switch bi.Name() {
					case "delete", "copy", "clear":
						ok = false
					case "append":
						if !rootFresh(c.Args[0], 0) {
							// may write in place into a caller-visible array
							ok = false
						}
					}
					continue
				}
				sub := &Frame{vc: vc, fn: fn, depth: fr.depth + 1}
				if sub.callIsPure(c) {
					continue
				}
				if f, isF := c.Value.(*ssa.Function); isF && inRepo(f) && vc.p.contracts[funcKey(f)] == nil && fr.effectFree(f, depth+1) {
					continue
				}
				ok = false
			}
		}
	}
	vc.p.effFree[fn] = ok
	return ok
}

// singleStore: the value stored into a local variable that is assigned exactly
// once in its function (nil otherwise).
func singleStore(a *ssa.Alloc) ssa.Value {
	var v ssa.Value
	n := 0
	for _, ref := range *a.Referrers() {
		if st, ok := ref.(*ssa.Store); ok && st.Addr == a {
			n++
			v = st.Val
		}
	}
	if n == 1 {
		return v
	}
	return nil
}
