package main

// SMT-LIB term construction (terms are plain strings), prelude and the solver
// portfolio runner.

import (
	"bytes"
	"context"
	"fmt"
	"os"
	"os/exec"
	"path/filepath"
	"sort"
	"strings"
	"time"
)

type Term = string

const (
	tTrue  Term = "true"
	tFalse Term = "false"
)

func sx(op string, args ...Term) Term {
	return "(" + op + " " + strings.Join(args, " ") + ")"
}

func tInt(n int64) Term {
	if n < 0 {
		return fmt.Sprintf("(- %d)", -n)
	}
	return fmt.Sprintf("%d", n)
}

func tBigInt(s string) Term {
	if strings.HasPrefix(s, "-") {
		return "(- " + s[1:] + ")"
	}
	return s
}

func tNot(a Term) Term {
	switch a {
	case tTrue:
		return tFalse
	case tFalse:
		return tTrue
	}
	if strings.HasPrefix(a, "(not ") && balanced(a[5:len(a)-1]) {
		return a[5 : len(a)-1]
	}
	return sx("not", a)
}

// balanced reports whether s is one complete s-expression (or atom).
func balanced(s string) bool {
	if s == "" {
		return false
	}
	if s[0] != '(' {
		return !strings.ContainsAny(s, " ()")
	}
	d := 0
	for i := 0; i < len(s); i++ {
		switch s[i] {
		case '(':
			d++
		case ')':
			d--
			if d == 0 && i != len(s)-1 {
				return false
			}
		case '"':
			// string literals do not occur in our terms
		}
	}
	return d == 0
}

func tAnd(args ...Term) Term {
	var out []Term
	for _, a := range args {
		if a == tTrue || a == "" {
			continue
		}
		if a == tFalse {
			return tFalse
		}
		out = append(out, a)
	}
	switch len(out) {
	case 0:
		return tTrue
	case 1:
		return out[0]
	}
	return sx("and", out...)
}

func tOr(args ...Term) Term {
	var out []Term
	for _, a := range args {
		if a == tFalse || a == "" {
			continue
		}
		if a == tTrue {
			return tTrue
		}
		out = append(out, a)
	}
	switch len(out) {
	case 0:
		return tFalse
	case 1:
		return out[0]
	}
	return sx("or", out...)
}

func tImp(a, b Term) Term {
	if a == tTrue {
		return b
	}
	if a == tFalse || b == tTrue {
		return tTrue
	}
	if b == tFalse {
		return tNot(a)
	}
	return sx("=>", a, b)
}

func tEq(a, b Term) Term {
	if a == b {
		return tTrue
	}
	return sx("=", a, b)
}

func tIte(c, a, b Term) Term {
	if c == tTrue {
		return a
	}
	if c == tFalse {
		return b
	}
	if a == b {
		return a
	}
	return sx("ite", c, a, b)
}

func tSel(a, i Term) Term    { return sx("select", a, i) }
func tSto(a, i, v Term) Term { return sx("store", a, i, v) }
func tSel2(a, i, j Term) Term {
	return tSel(tSel(a, i), j)
}
func tSto2(a, i, j, v Term) Term {
	return tSto(a, i, tSto(tSel(a, i), j, v))
}
func tAdd(a, b Term) Term {
	if b == "0" {
		return a
	}
	if a == "0" {
		return b
	}
	if x, ok := constLen(a); ok {
		if y, ok := constLen(b); ok {
			return tInt(int64(x + y))
		}
	}
	// (+ (+ t c1) c2) -> (+ t c)
	if y, ok := constLen(b); ok && strings.HasPrefix(a, "(+ ") && strings.HasSuffix(a, ")") {
		inner := a[3 : len(a)-1]
		if k := strings.LastIndex(inner, " "); k > 0 {
			if x, ok := constLen(inner[k+1:]); ok && balanced(inner[:k]) {
				return sx("+", inner[:k], tInt(int64(x+y)))
			}
		}
	}
	return sx("+", a, b)
}
func tSub(a, b Term) Term {
	if b == "0" {
		return a
	}
	return sx("-", a, b)
}
func tMul(a, b Term) Term {
	if a == "1" {
		return b
	}
	if b == "1" {
		return a
	}
	return sx("*", a, b)
}
func tLe(a, b Term) Term { return sx("<=", a, b) }
func tLt(a, b Term) Term { return sx("<", a, b) }

// ---------------------------------------------------------------------------

const prelude = `
(declare-sort Str 0)
(declare-sort Tim 0)
(declare-sort Flt 0)
(declare-fun slen (Str) Int)
(declare-fun sbyte (Str Int) Int)
(declare-fun sconcat (Str Str) Str)
(declare-fun ssub (Str Int Int) Str)
(declare-fun slt (Str Str) Bool)
(declare-fun slower (Str) Str)
(declare-fun sprefix (Str Str) Bool)
(declare-fun ssuffix (Str Str) Bool)
(declare-fun scontains (Str Str) Bool)
(declare-const sempty Str)
(declare-fun instant (Tim) Int)
(declare-const tzero Tim)
(declare-fun mktime (Int) Tim)
(declare-fun dtype (Int) Int)
(declare-fun i2f (Int) Flt)
(declare-fun f2i (Flt) Int)
(declare-const zarrS (Array Int Str))
(declare-const zarrF (Array Int Flt))
(declare-const zarrT (Array Int Tim))
(define-fun godiv ((a Int) (b Int)) Int (ite (>= a 0) (div a b) (- (div (- a) b))))
(define-fun gorem ((a Int) (b Int)) Int (- a (* b (ite (>= a 0) (div a b) (- (div (- a) b))))))
(define-fun imax ((a Int) (b Int)) Int (ite (>= a b) a b))
(define-fun imin ((a Int) (b Int)) Int (ite (<= a b) a b))
(assert (forall ((i Int)) (! (= (select zarrS i) sempty) :pattern ((select zarrS i)))))
(assert (forall ((i Int)) (! (= (select zarrF i) (i2f 0)) :pattern ((select zarrF i)))))
(assert (forall ((i Int)) (! (= (select zarrT i) tzero) :pattern ((select zarrT i)))))
(assert (forall ((s Str)) (! (>= (slen s) 0) :pattern ((slen s)))))
(assert (forall ((s Str)) (! (= (= (slen s) 0) (= s sempty)) :pattern ((slen s)))))
(assert (= (slen sempty) 0))
(assert (forall ((s Str) (i Int)) (! (and (<= 0 (sbyte s i)) (<= (sbyte s i) 255)) :pattern ((sbyte s i)))))
(assert (forall ((a Str) (b Str)) (! (= (slen (sconcat a b)) (+ (slen a) (slen b))) :pattern ((sconcat a b)))))
(assert (forall ((a Str) (b Str) (i Int)) (! (= (sbyte (sconcat a b) i) (ite (< i (slen a)) (sbyte a i) (sbyte b (- i (slen a))))) :pattern ((sbyte (sconcat a b) i)))))
(assert (forall ((s Str) (a Int) (b Int)) (! (=> (and (<= 0 a) (<= a b) (<= b (slen s))) (= (slen (ssub s a b)) (- b a))) :pattern ((ssub s a b)))))
(assert (forall ((s Str) (a Int) (b Int) (i Int)) (! (=> (and (<= 0 a) (<= a b) (<= b (slen s)) (<= 0 i) (< i (- b a))) (= (sbyte (ssub s a b) i) (sbyte s (+ a i)))) :pattern ((sbyte (ssub s a b) i)))))
(assert (forall ((s Str)) (! (= (ssub s 0 (slen s)) s) :pattern ((ssub s 0 (slen s))))))
(assert (forall ((a Str) (b Str)) (! (not (and (slt a b) (slt b a))) :pattern ((slt a b) (slt b a)))))
(assert (forall ((a Str)) (! (not (slt a a)) :pattern ((slt a a)))))
(assert (forall ((a Str) (b Str)) (! (or (slt a b) (slt b a) (= a b)) :pattern ((slt a b)))))
(assert (forall ((a Str) (b Str) (c Str)) (! (=> (and (slt a b) (slt b c)) (slt a c)) :pattern ((slt a b) (slt b c)))))
(assert (forall ((s Str)) (! (= (slower (slower s)) (slower s)) :pattern ((slower s)))))
(assert (forall ((s Str)) (! (= (slen (slower s)) (slen s)) :pattern ((slower s)))))
(assert (forall ((s Str) (p Str)) (! (=> (sprefix s p) (<= (slen p) (slen s))) :pattern ((sprefix s p)))))
(assert (forall ((s Str) (p Str)) (! (=> (ssuffix s p) (<= (slen p) (slen s))) :pattern ((ssuffix s p)))))
(assert (forall ((s Str)) (! (sprefix s s) :pattern ((sprefix s s)))))
(assert (forall ((s Str)) (! (sprefix s sempty) :pattern ((sprefix s sempty)))))
(assert (forall ((s Str) (p Str)) (! (=> (and (sprefix s p) (= (slen p) (slen s))) (= s p)) :pattern ((sprefix s p)))))
(assert (forall ((s Str) (p Str)) (! (=> (and (sprefix s p) (not (= s p))) (slt p s)) :pattern ((sprefix s p)))))
(assert (forall ((s Str) (p Str) (q Str)) (! (=> (and (sprefix s p) (sprefix p q)) (sprefix s q)) :pattern ((sprefix s p) (sprefix p q)))))
(assert (forall ((s Str) (p Str) (i Int)) (! (=> (and (sprefix s p) (<= 0 i) (< i (slen p))) (= (sbyte s i) (sbyte p i))) :pattern ((sprefix s p) (sbyte p i)))))
(assert (forall ((a Str) (b Str)) (! (sprefix (sconcat a b) a) :pattern ((sconcat a b)))))
(assert (forall ((s Str) (b Int)) (! (=> (and (<= 0 b) (<= b (slen s))) (sprefix s (ssub s 0 b))) :pattern ((ssub s 0 b)))))
(assert (forall ((i Int)) (! (= (instant (mktime i)) i) :pattern ((mktime i)))))
`

// Query is one SMT-LIB problem: shared declarations + assumptions + negated goal.
type Query struct {
	Name    string
	Decls   []string
	Assumes []string
	Goal    Term // to be proved; we assert its negation
}

// lightPrelude is the prelude without its quantified axioms: used for cover
// queries and for model finding (a model of the weaker theory is only a
// candidate; it counts when it replays on the real code).
var lightPrelude = func() string {
	var b strings.Builder
	for _, l := range strings.Split(prelude, "\n") {
		if strings.HasPrefix(l, "(assert (forall") {
			continue
		}
		b.WriteString(l)
		b.WriteByte('\n')
	}
	return b.String()
}()

func (q *Query) Text(withModel bool) string { return q.text(withModel, false) }

func (q *Query) text(withModel, light bool) string {
	var b bytes.Buffer
	b.WriteString("; obligation: " + q.Name + "\n")
	if withModel {
		b.WriteString("(set-option :produce-models true)\n")
	}
	b.WriteString("(set-logic ALL)\n")
	if light {
		b.WriteString(lightPrelude)
	} else {
		b.WriteString(prelude)
	}
	seen := map[string]bool{}
	for _, d := range q.Decls {
		b.WriteString(d)
		b.WriteByte('\n')
	}
	for _, a := range q.Assumes {
		if seen[a] {
			continue
		}
		seen[a] = true
		b.WriteString("(assert ")
		b.WriteString(a)
		b.WriteString(")\n")
	}
	b.WriteString("(assert (not ")
	b.WriteString(q.Goal)
	b.WriteString("))\n(check-sat)\n")
	if withModel {
		b.WriteString("(get-model)\n")
	}
	return b.String()
}

type SolverResult struct {
	Status string // unsat | sat | unknown | timeout | error
	Solver string
	Millis int64
	Output string
	All    map[string]string // solver -> status (thorough tier)
	Model  string            // candidate model (light theory), if any
}

type solverSpec struct {
	name string
	args func(file string, timeoutS int, seed int) []string
}

var solvers = []solverSpec{
	{"z3-new", func(f string, t, seed int) []string {
		return []string{"z3-new", fmt.Sprintf("-T:%d", t), fmt.Sprintf("smt.random_seed=%d", seed), f}
	}},
	{"cvc5", func(f string, t, seed int) []string {
		return []string{"cvc5", fmt.Sprintf("--tlimit=%d", t*1000), fmt.Sprintf("--seed=%d", seed), f}
	}},
	{"z3", func(f string, t, seed int) []string {
		return []string{"z3", fmt.Sprintf("-T:%d", t), fmt.Sprintf("smt.random_seed=%d", seed), f}
	}},
}

func firstLine(s string) string {
	for _, l := range strings.Split(s, "\n") {
		l = strings.TrimSpace(l)
		if l == "" || strings.HasPrefix(l, ";") {
			continue
		}
		return l
	}
	return ""
}

func classify(out string, err error, ctxErr error) string {
	// the verdict is the first line that is not a solver warning
	l := ""
	for _, ln := range strings.Split(out, "\n") {
		ln = strings.TrimSpace(ln)
		if ln == "" || strings.HasPrefix(ln, "WARNING") {
			continue
		}
		l = ln
		break
	}
	switch {
	case l == "unsat":
		return "unsat"
	case l == "sat":
		return "sat"
	case l == "unknown":
		return "unknown"
	case strings.Contains(l, "timeout") || ctxErr != nil:
		return "timeout"
	}
	if err != nil || strings.HasPrefix(l, "(error") {
		return "error"
	}
	return "unknown"
}

// runQuery races the solver portfolio on one query. If all is true every solver
// is run to completion (thorough tier) and disagreements are reported.
func runQuery(q *Query, dir string, timeoutS int, seed int, all bool) SolverResult {
	safe := sanitizeFile(q.Name)
	file := filepath.Join(dir, safe+".smt2")
	os.MkdirAll(dir, 0o755)
	os.WriteFile(file, []byte(q.Text(false)), 0o644)

	type res struct {
		solver, status, out string
		ms                  int64
	}
	ctx, cancel := context.WithCancel(context.Background())
	defer cancel()
	ch := make(chan res, len(solvers))
	for _, s := range solvers {
		s := s
		go func() {
			t0 := time.Now()
			c, cc := context.WithTimeout(ctx, time.Duration(timeoutS+2)*time.Second)
			defer cc()
			a := s.args(file, timeoutS, seed)
			cmd := exec.CommandContext(c, a[0], a[1:]...)
			var ob bytes.Buffer
			cmd.Stdout = &ob
			cmd.Stderr = &ob
			err := cmd.Run()
			ch <- res{s.name, classify(ob.String(), err, c.Err()), ob.String(), time.Since(t0).Milliseconds()}
		}()
	}
	out := SolverResult{Status: "unknown", All: map[string]string{}}
	var best *res
	for i := 0; i < len(solvers); i++ {
		r := <-ch
		out.All[r.solver] = r.status
		if r.status == "unsat" || r.status == "sat" {
			if best == nil {
				rr := r
				best = &rr
				if !all {
					break
				}
			} else if best.status != r.status {
				out.Output += fmt.Sprintf("SOLVER-DISAGREEMENT %s=%s %s=%s\n", best.solver, best.status, r.solver, r.status)
			}
		} else if best == nil {
			out.Output += r.solver + ": " + firstLine(r.out) + "\n"
			if out.Status == "unknown" && r.status == "timeout" {
				out.Status = "timeout"
			}
		}
	}
	if best != nil {
		out.Status = best.status
		out.Solver = best.solver
		out.Millis = best.ms
	}
	return out
}

// runLight runs z3-new on the query with the quantifier-free prelude; returns
// status and raw output (with a model when sat).
func runLight(q *Query, dir string, timeoutS int, model bool) (string, string) {
	out := getModelOpt(q, dir, timeoutS, model)
	return classify(out, nil, nil), out
}

// getModel re-runs a query on z3-new with model production (light prelude).
func getModel(q *Query, dir string, timeoutS int) string { return getModelOpt(q, dir, timeoutS, true) }

func getModelOpt(q *Query, dir string, timeoutS int, model bool) string {
	os.MkdirAll(dir, 0o755)
	file := filepath.Join(dir, sanitizeFile(q.Name)+".light.smt2")
	os.WriteFile(file, []byte(q.text(model, true)), 0o644)
	c, cc := context.WithTimeout(context.Background(), time.Duration(timeoutS+2)*time.Second)
	defer cc()
	cmd := exec.CommandContext(c, "z3-new", fmt.Sprintf("-T:%d", timeoutS), file)
	var ob bytes.Buffer
	cmd.Stdout = &ob
	cmd.Stderr = &ob
	cmd.Run()
	return ob.String()
}

func sanitizeFile(s string) string {
	r := strings.NewReplacer("/", "_", "*", "", "(", "", ")", "", "[", "_", "]", "", "@", "_at_", " ", "", "$", "_", "#", "_", ":", "_", ",", "_")
	s = r.Replace(s)
	if len(s) > 180 {
		s = s[len(s)-180:]
	}
	return s
}

func sortedKeys[V any](m map[string]V) []string {
	var ks []string
	for k := range m {
		ks = append(ks, k)
	}
	sort.Strings(ks)
	return ks
}
