package main

// Calls: builtins, stdlib models, contracts, inlining, havoc; loop heads.

import (
	"fmt"
	"go/token"
	"go/types"
	"sort"
	"strings"

	"golang.org/x/tools/go/ssa"
)

func (fr *Frame) callArgs(st *State, c *ssa.CallCommon) []Val {
	var out []Val
	if c.IsInvoke() {
		if st == nil {
			out = append(out, Val{T: c.Value.Type()})
		} else {
			out = append(out, fr.val(st, c.Value))
		}
	}
	for _, a := range c.Args {
		if st == nil {
			out = append(out, Val{T: a.Type()})
		} else {
			v := fr.val(st, a)
			v.T = a.Type()
			out = append(out, v)
		}
	}
	if !c.IsInvoke() {
		// the callee value itself is snapshotted for dynamic calls
		if _, static := c.Value.(*ssa.Function); !static {
			if _, b := c.Value.(*ssa.Builtin); !b {
				if st == nil {
					out = append(out, Val{T: c.Value.Type()})
				} else {
					out = append(out, fr.val(st, c.Value))
				}
			}
		}
	}
	return out
}

func (fr *Frame) call(st *State, c *ssa.CallCommon, site ssa.Instruction) Val {
	return fr.callWith(st, c, fr.callArgs(st, c), site)
}

func ifaceMethodKey(c *ssa.CallCommon) string {
	t := types.Unalias(c.Value.Type())
	s := types.TypeString(t, nil)
	return "(" + shortenPaths(s) + ")." + c.Method.Name()
}

func (vc *VC) resultType(sig *types.Signature) types.Type {
	rs := sig.Results()
	if rs.Len() == 1 {
		return rs.At(0).Type()
	}
	return rs
}

func (fr *Frame) callWith(st *State, c *ssa.CallCommon, args []Val, site ssa.Instruction) Val {
	if len(fr.vc.labels) > 0 {
		// state right before a counted call: before(Label, expr)
		key := ""
		if c.IsInvoke() {
			key = ifaceMethodKey(c)
		} else if f, ok := c.Value.(*ssa.Function); ok {
			if f.Origin() != nil {
				f = f.Origin()
			}
			key = funcKey(f)
		}
		for _, lab := range fr.vc.p.countOf[key] {
			if fr.vc.labels[lab] {
				if fr.vc.beforeState == nil {
					fr.vc.beforeState = map[string]*State{}
				}
				fr.vc.beforeState[lab] = st.clone()
			}
		}
	}
	res := fr.callWith0(st, c, args, site)
	// remember the result of counted calls: last(Label) in specifications
	if len(fr.vc.labels) > 0 {
		key := ""
		if c.IsInvoke() {
			key = ifaceMethodKey(c)
		} else if f, ok := c.Value.(*ssa.Function); ok {
			if f.Origin() != nil {
				f = f.Origin()
			}
			key = funcKey(f)
		}
		for _, lab := range fr.vc.p.countOf[key] {
			if !fr.vc.labels[lab] {
				continue
			}
			lay := fr.vc.p.lay.of(fr.vc.resultType(c.Signature()))
			if len(lay.Kinds) != len(res.S) {
				continue
			}
			if fr.vc.lastType == nil {
				fr.vc.lastType = map[string]types.Type{}
			}
			fr.vc.lastType[lab] = fr.vc.resultType(c.Signature())
			for i, k := range lay.Kinds {
				gk := fmt.Sprintf("g.last.%s:%d", lab, i)
				fr.vc.ensureKey(gk, k.Sort())
				st.v[gk] = res.S[i]
			}
			// result of the first call under the label (first(Label))
			{
				ck := "g.calls." + lab
				fr.vc.ensureKey(ck, "Int")
				isFirst := tEq(fr.vc.get(st, ck), "1") // the counter was bumped before the call
				for i, k := range lay.Kinds {
					fk := fmt.Sprintf("g.first.%s:%d", lab, i)
					fr.vc.ensureKey(fk, k.Sort())
					st.v[fk] = tIte(isFirst, res.S[i], fr.vc.get(st, fk))
				}
			}
			// conjunction of the boolean results of all calls under the label
			if len(res.S) == 1 && lay.Kinds[0] == KB {
				ak := "g.all." + lab
				fr.vc.ensureKey(ak, "Bool")
				st.v[ak] = tAnd(fr.vc.get(st, ak), res.S[0])
			}
			// state right after the call: at(Label, expr) in specifications
			if fr.vc.lastState == nil {
				fr.vc.lastState = map[string]*State{}
			}
			fr.vc.lastState[lab] = st.clone()
		}
	}
	return res
}

func (fr *Frame) callWith0(st *State, c *ssa.CallCommon, args []Val, site ssa.Instruction) Val {
	vc := fr.vc
	if b, ok := c.Value.(*ssa.Builtin); ok {
		return fr.builtin(st, b, c, args, site)
	}
	sig := c.Signature()
	rt := vc.resultType(sig)
	var callee *ssa.Function
	var freeVars []Val
	key := ""
	switch {
	case c.IsInvoke():
		key = ifaceMethodKey(c)
	default:
		switch v := c.Value.(type) {
		case *ssa.Function:
			callee = v
		case *ssa.MakeClosure:
			callee = v.Fn.(*ssa.Function)
			fv := args[len(args)-1]
			args = args[:len(args)-1]
			if ci := vc.closures[fv.S[0]]; ci != nil {
				freeVars = ci.bindings
			} else {
				callee = nil
			}
		default:
			fv := args[len(args)-1]
			args = args[:len(args)-1]
			if ci := vc.closures[fv.S[0]]; ci != nil {
				callee = ci.fn
				freeVars = ci.bindings
			} else if ld, ok := c.Value.(*ssa.UnOp); ok {
				// call through a package-level function variable: contract by variable name
				if g, ok := ld.X.(*ssa.Global); ok && g.Pkg != nil {
					key = g.Pkg.Pkg.Name() + "." + g.Name()
				}
				// call through a struct field holding a function: named after the
				// field, so that call-site assertions can pin its arguments
				if fa, ok := ld.X.(*ssa.FieldAddr); ok {
					key = "field." + fieldName(fa)
				}
				// call through a captured variable holding a function
				if cv, ok := ld.X.(*ssa.FreeVar); ok {
					key = "captured." + cv.Name()
				}
			}
		}
		if callee != nil {
			key = funcKey(callee)
		}
	}
	// ghost call counters
	fr.bumpCounters(st, key)
	if callee != nil && callee.Origin() != nil {
		// instantiation of a generic: use the generic body / contract
		callee = callee.Origin()
	}
	fr.callOrd[key]++
	ord := fr.callOrd[key]
	if so, ok := fr.siteOrdinal(site, key); ok {
		ord = so // ordinal of the call site in source order (not in execution order)
	}
	// caller-side assertions of the contract being verified
	topFr := fr
	for topFr.up != nil {
		topFr = topFr.up
	}
	if topFr.top && topFr.contract != nil && !vc.quiet {
		for _, ca := range topFr.contract.CallAsrt {
			if fr != topFr && !ca.InHelpers {
				continue
			}
			if (ca.Ord == 0 || ca.Ord == ord) && calleeMatches(key, ca.Callee) {
				env := topFr.specEnv(st, nil)
				if fr == topFr {
					env.block = site.Block()
				}
				env.localsFirst = true
				for i, a := range args {
					env.vars[fmt.Sprintf("$arg%d", i)] = a
				}
				name := fmt.Sprintf("%s/call[%s#%d]/assert[%s]", vc.fnKey, shortCallee(key), ord, ca.Clause.Label)
				vc.oblige(st, name, "assert", env.evalBool(ca.Clause.Expr), ca.Clause.Text)
				ca.Used = true
			}
		}
	}
	if key != "" {
		if m, ok := models[key]; ok {
			vc.trusted["model:"+key] = true
			return m(fr, st, args, rt)
		}
		if ct := vc.p.contracts[key]; ct != nil {
			ct.Used = true
			if ct.Inline && callee != nil {
				res, ok := vc.inlineCallFrom(fr, st, callee, args, freeVars)
				if !ok {
					st.pc = tFalse
				}
				return res
			}
			return fr.applyContract(st, ct, callee, sig, args, rt, ord)
		}
	}
	if callee != nil && fr.canInline(callee) {
		saved := st.clone()
		res, ok, rejected := fr.tryInline(st, callee, args, freeVars)
		if rejected == "" {
			if !ok {
				st.pc = tFalse
				return vc.zeroValOrEmpty(rt)
			}
			return res
		}
		// the callee is outside the modelled subset: treat it as unknown code
		st.pc, st.v = saved.pc, saved.v
		vc.notes["callee "+key+" not inlined ("+rejected+")"] = true
	}
	// unknown callee
	if key == "" {
		key = "<dynamic call>"
	}
	// a known function of another module that takes and returns scalars only cannot
	// reach the heap of the verified code; a call through a function value can
	// (its closure may have captured anything), so it is never treated this way
	if scalarOnly(sig) && callee != nil && !inRepo(callee) && !c.IsInvoke() {
		vc.trusted["scalar-extern:"+key] = true
		res := vc.freshVal("r."+shortCallee(key), rt)
		vc.assume(st, vc.wellTyped(st, res))
		return res
	}
	vc.notes["havoc at call to "+key] = true
	if callee != nil && inRepo(callee) {
		if vc.opaque == nil {
			vc.opaque = map[string]bool{}
		}
		vc.opaque[key] = true // an in-repository callee seen as unknown code (no contract, not inlinable)
	}
	vc.havocHeap(st)
	vc.forgetReachable(st, c, callee, key)
	res := vc.freshVal("r."+shortCallee(key), rt)
	vc.assume(st, vc.wellTyped(st, res))
	return res
}

func (vc *VC) zeroValOrEmpty(t types.Type) Val {
	if vc.p.lay.size(t) == 0 {
		return Val{T: t}
	}
	return vc.zeroVal(t)
}

func shortCallee(key string) string {
	if k := strings.LastIndex(key, "."); k >= 0 {
		return key[k+1:]
	}
	return key
}

func calleeMatches(key, pat string) bool {
	if strings.ContainsAny(pat, "()*") {
		return strings.Contains(key, pat) || strings.Contains(strings.ReplaceAll(key, "annotations.", ""), pat)
	}
	return key == pat || strings.HasSuffix(key, "."+pat) || strings.HasSuffix(key, ")."+pat) || shortCallee(key) == pat
}

func scalarOnly(sig *types.Signature) bool {
	ok := func(t types.Type) bool {
		switch u := types.Unalias(t).Underlying().(type) {
		case *types.Basic:
			return u.Kind() != types.UnsafePointer
		}
		return isNamed(t, "time", "Time")
	}
	if sig.Recv() != nil && !ok(sig.Recv().Type()) {
		return false
	}
	for i := 0; i < sig.Params().Len(); i++ {
		if !ok(sig.Params().At(i).Type()) {
			return false
		}
	}
	return true
}

func (fr *Frame) bumpCounters(st *State, key string) {
	vc := fr.vc
	for _, lab := range vc.p.countOf[key] {
		if !vc.labels[lab] {
			continue
		}
		k := "g.calls." + lab
		vc.ensureKey(k, "Int")
		vc.set(st, k, tAdd(vc.get(st, k), "1"))
	}
}

func (fr *Frame) canInline(fn *ssa.Function) bool {
	if fn.Blocks == nil || fr.depth >= 5 {
		return false
	}
	if !inRepo(fn) {
		return false
	}
	if len(findLoops(fn)) > 0 {
		return false
	}
	// no recursion
	for f := fr; f != nil; f = f.parent() {
		if f.fn == fn {
			return false
		}
	}
	n := 0
	for _, b := range fn.Blocks {
		n += len(b.Instrs)
	}
	return n < 400
}

func (fr *Frame) parent() *Frame { return fr.up }

// siteOrdinal: 1-based position of a call site among the call sites of the same
// callee in this function, in source order.
func (fr *Frame) siteOrdinal(site ssa.Instruction, key string) (int, bool) {
	if site == nil {
		return 0, false
	}
	if fr.siteOrd == nil {
		fr.siteOrd = map[ssa.Instruction]int{}
		byKey := map[string][]ssa.Instruction{}
		for _, b := range fr.fn.Blocks {
			for _, in := range b.Instrs {
				ci, ok := in.(ssa.CallInstruction)
				if !ok {
					continue
				}
				c := ci.Common()
				k := ""
				switch {
				case c.IsInvoke():
					k = ifaceMethodKey(c)
				default:
					switch v := c.Value.(type) {
					case *ssa.Function:
						f := v
						if f.Origin() != nil {
							f = f.Origin()
						}
						k = funcKey(f)
					case *ssa.MakeClosure:
						k = funcKey(v.Fn.(*ssa.Function))
					case *ssa.Builtin:
						k = "builtin." + v.Name()
					case *ssa.UnOp:
						if g, ok := v.X.(*ssa.Global); ok && g.Pkg != nil {
							k = g.Pkg.Pkg.Name() + "." + g.Name()
						}
						if fa, ok := v.X.(*ssa.FieldAddr); ok {
							k = "field." + fieldName(fa)
						}
						if cv, ok := v.X.(*ssa.FreeVar); ok {
							k = "captured." + cv.Name()
						}
					}
				}
				byKey[k] = append(byKey[k], in)
			}
		}
		for _, ins := range byKey {
			sort.SliceStable(ins, func(i, j int) bool {
				pi, pj := ins[i].Pos(), ins[j].Pos()
				if pi != pj {
					return pi < pj
				}
				return ins[i].Block().Index < ins[j].Block().Index
			})
			for i, in := range ins {
				fr.siteOrd[in] = i + 1
			}
		}
	}
	o, ok := fr.siteOrd[site]
	return o, ok
}

// tryInline inlines a callee; a callee outside the modelled subset is reported
// through the third result instead of aborting the caller's verification.
func (fr *Frame) tryInline(st *State, callee *ssa.Function, args []Val, freeVars []Val) (res Val, ok bool, rejected string) {
	defer func() {
		if r := recover(); r != nil {
			if u, isU := r.(unsupported); isU {
				rejected = u.msg
				return
			}
			panic(r)
		}
	}()
	res, ok = fr.vc.inlineCallFrom(fr, st, callee, args, freeVars)
	return res, ok, ""
}

func (vc *VC) inlineCallFrom(fr *Frame, st *State, fn *ssa.Function, args []Val, freeVars []Val) (Val, bool) {
	nf := vc.newFrame(fn, fr.depth+1)
	nf.up = fr
	return vc.runInline(nf, st, fn, args, freeVars)
}

func (vc *VC) inlineCall(st *State, fn *ssa.Function, args []Val, freeVars []Val, depth int) (Val, bool) {
	nf := vc.newFrame(fn, depth)
	return vc.runInline(nf, st, fn, args, freeVars)
}

func (vc *VC) runInline(nf *Frame, st *State, fn *ssa.Function, args []Val, freeVars []Val) (Val, bool) {
	if len(args) != len(fn.Params) {
		vc.reject("inline %s: %d args for %d params", funcKey(fn), len(args), len(fn.Params))
	}
	for i, p := range fn.Params {
		a := args[i]
		a.T = p.Type()
		if len(a.S) != vc.p.lay.size(p.Type()) {
			vc.reject("inline %s: argument %d shape mismatch (%v vs %v)", funcKey(fn), i, args[i].T, p.Type())
		}
		nf.params = append(nf.params, a)
	}
	nf.freeVars = freeVars
	exits := nf.run(st)
	rt := vc.resultType(fn.Signature)
	if len(exits) == 0 {
		return vc.zeroValOrEmpty(rt), false
	}
	// merge exits
	var ins []edgeIn
	for _, ex := range exits {
		ins = append(ins, edgeIn{pred: ex.ret.Block(), st: ex.st})
	}
	var res Val
	res.T = rt
	n := vc.p.lay.size(rt)
	if len(exits) == 1 {
		for _, r := range exits[0].results {
			res.S = append(res.S, r.S...)
		}
	} else {
		kinds := vc.p.lay.of(rt).Kinds
		for i := 0; i < n; i++ {
			var terms []Term
			same := true
			for _, ex := range exits {
				var flat []Term
				for _, r := range ex.results {
					flat = append(flat, r.S...)
				}
				terms = append(terms, flat[i])
				if flat[i] != terms[0] {
					same = false
				}
			}
			if same {
				res.S = append(res.S, terms[0])
				continue
			}
			if vc.inQuant > 0 {
				t := terms[len(terms)-1]
				for j := len(terms) - 2; j >= 0; j-- {
					t = tIte(exits[j].st.pc, terms[j], t)
				}
				res.S = append(res.S, t)
				continue
			}
			v := vc.fresh(fmt.Sprintf("f%d.ret%d", nf.id, i), kinds[i].Sort())
			for j, ex := range exits {
				vc.assumeRaw(tImp(ex.st.pc, tEq(v, terms[j])))
			}
			res.S = append(res.S, v)
		}
	}
	m := vc.merge(fmt.Sprintf("f%d.exit", nf.id), ins)
	// drop the callee's frame-local keys
	pref := fmt.Sprintf("f%d:", nf.id)
	for k := range m.v {
		if strings.HasPrefix(k, pref) {
			delete(m.v, k)
		}
	}
	st.pc, st.v = m.pc, m.v
	return res, true
}

// havocAll forgets the heap, maps and allocation state (unknown callee).
func (vc *VC) havocAll(st *State) { vc.havocAllOpt(st, true) }

// havocHeap forgets heap, maps and allocation state but keeps the ghost call
// counters (the callee provably reaches no counted function).
func (vc *VC) havocHeap(st *State) { vc.havocAllOpt(st, false) }

func (vc *VC) havocAllOpt(st *State, counters bool) {
	if vc.inQuant > 0 {
		vc.reject("call with unknown effects inside a quantified specification")
	}
	oldAlloc := vc.get(st, vc.allocKey())
	var keys []string
	for k := range vc.keySort {
		if isHeapKey(k) {
			keys = append(keys, k)
		}
	}
	sort.Strings(keys)
	prot := vc.p.protectedGlobals()
	for _, k := range keys {
		o := vc.get(st, k)
		n := vc.havocKey(st, k)
		if len(k) == 2 && k[0] == 'H' {
			// package-level variables under a global invariant are written by
			// their package initializer only and never escape: unknown code
			// cannot change them
			for _, g := range prot {
				n = tSto(n, tInt(int64(g)), tSel(o, tInt(int64(g))))
			}
			if len(prot) > 0 {
				vc.set(st, k, n)
			}
		}
	}
	na := vc.get(st, vc.allocKey())
	vc.assumeRaw(tLe(oldAlloc, na))
	for k := range vc.keySort {
		if strings.HasPrefix(k, "g.calls.") && counters {
			o := vc.get(st, k)
			n := vc.havocKey(st, k)
			vc.assumeRaw(tLe(o, n))
		}
	}
}

// forgetReachable forgets the call-history ghost state of exactly those labels
// whose counted functions the callee may reach.
func (vc *VC) forgetReachable(st *State, c *ssa.CallCommon, callee *ssa.Function, key string) {
	var labs []string
	for lab := range vc.labels {
		labs = append(labs, lab)
	}
	sort.Strings(labs)
	for _, lab := range labs {
		if !vc.p.mayReachCounted(c, callee, map[string]bool{lab: true}) {
			continue
		}
		vc.notes["call history of "+lab+" forgotten at call to "+key+" (may reach a counted function)"] = true
		k := "g.calls." + lab
		vc.ensureKey(k, "Int")
		o := vc.get(st, k)
		n := vc.havocKey(st, k)
		vc.assumeRaw(tLe(o, n))
		for gk := range vc.keySort {
			if strings.HasPrefix(gk, "g.last."+lab+":") {
				vc.havocKey(st, gk)
			}
		}
		if ak := "g.all." + lab; vc.keySort[ak] != "" {
			o := vc.get(st, ak)
			n := vc.havocKey(st, ak)
			vc.assumeRaw(tImp(n, o))
		}
		vc.forgetFirst(st, lab, o)
	}
}

// forgetFirst: the result of the first call under a label may have been set by
// unknown code, unless a call had already happened (oldCount >= 1).
func (vc *VC) forgetFirst(st *State, lab string, oldCount Term) {
	for gk := range vc.keySort {
		if strings.HasPrefix(gk, "g.first."+lab+":") {
			o := vc.get(st, gk)
			n := vc.havocKey(st, gk)
			vc.assumeRaw(tImp(tLe("1", oldCount), tEq(n, o)))
		}
	}
}

func isHeapKey(k string) bool {
	return k == "alloc" || k == "MLen" || strings.HasPrefix(k, "MD_") || strings.HasPrefix(k, "MV") ||
		(len(k) == 2 && k[0] == 'H' && k != "HM") // HM: ghost lock state, kept across unknown calls
}

// ---------------------------------------------------------------------------
// contracts at call sites

func (fr *Frame) specEnv(cur *State, old *State) *SEnv {
	e := &SEnv{vc: fr.vc, fr: fr, fn: fr.fn, cur: cur, old: old, vars: map[string]Val{}, ct: fr.contract}
	if old == nil {
		e.old = fr.entry
	}
	for k, v := range fr.specVars {
		e.vars[k] = v
	}
	return e
}

func paramNames(callee *ssa.Function, sig *types.Signature, invoke bool) []string {
	var names []string
	if callee != nil {
		for _, p := range callee.Params {
			names = append(names, p.Name())
		}
		return names
	}
	if invoke {
		names = append(names, "self")
	}
	for i := 0; i < sig.Params().Len(); i++ {
		names = append(names, sig.Params().At(i).Name())
	}
	return names
}

func (fr *Frame) applyContract(st *State, ct *Contract, callee *ssa.Function, sig *types.Signature, args []Val, rt types.Type, ord int) Val {
	vc := fr.vc
	if ct.Extern {
		vc.trusted["extern:"+ct.Key] = true
	}
	envFn := callee
	if envFn == nil {
		envFn = fr.fn
	}
	if ct.Getter {
		vc.trusted["getter:"+ct.Key+" (result depends on the receiver/arguments only)"] = true
		res := vc.getterUF(ct.Key, args, rt)
		vc.assume(st, vc.wellTyped(st, res))
		env := &SEnv{vc: vc, fr: fr, fn: envFn, cur: st, old: st, vars: map[string]Val{}, ct: ct, assumeMode: true}
		bindParams(env, paramNames(callee, sig, callee == nil), args)
		env.results = splitResults(vc, res, sig)
		for _, en := range ct.Ensures {
			vc.assume(st, env.evalBool(en.Expr))
		}
		return res
	}
	if ct.Pure && callee != nil {
		res := vc.pureUF(callee, ct, args)
		// requires are still checked
		env := &SEnv{vc: vc, fr: fr, fn: envFn, cur: st, old: st, vars: map[string]Val{}, ct: ct}
		bindParams(env, paramNames(callee, sig, callee == nil), args)
		for _, rq := range ct.Requires {
			name := fmt.Sprintf("%s/call[%s#%d]/requires[%s]", vc.fnKey, shortCallee(ct.Key), ord, rq.Label)
			vc.oblige(st, name, "requires", env.evalBool(rq.Expr), rq.Text)
		}
		return res
	}
	names := paramNames(callee, sig, callee == nil)
	env := &SEnv{vc: vc, fr: fr, fn: envFn, cur: st, old: st, vars: map[string]Val{}, ct: ct}
	bindParams(env, names, args)
	assumePre := false
	if top := fr.topContract(); top != nil {
		for _, pat := range top.AssumePre {
			if strings.Contains(ct.Key, pat) {
				assumePre = true
			}
		}
	}
	for _, rq := range ct.Requires {
		if assumePre {
			// the caller's contract declares this precondition a trusted
			// representation invariant of the callee's type
			env.assumeMode = true
			vc.assume(st, env.evalBool(rq.Expr))
			env.assumeMode = false
			vc.trusted[fmt.Sprintf("assumed-precondition:%s calls %s [%s]: %s", vc.fnKey, ct.Key, rq.Label, rq.Text)] = true
			continue
		}
		name := fmt.Sprintf("%s/call[%s#%d]/requires[%s]", vc.fnKey, shortCallee(ct.Key), ord, rq.Label)
		vc.oblige(st, name, "requires", env.evalBool(rq.Expr), rq.Text)
	}
	old := st.clone()
	// havoc the footprint
	if !ct.HasMod {
		vc.havocHeap(st)
		if callee != nil {
			vc.forgetReachable(st, nil, callee, ct.Key)
		} else {
			vc.havocAllOpt(st, true)
		}
	} else {
		targets := env.modTargets(ct.Modifies)
		vc.havocTargets(st, targets)
		// callee may allocate
		oa := vc.get(st, vc.allocKey())
		na := vc.havocKey(st, vc.allocKey())
		vc.assumeRaw(tLe(oa, na))
	}
	// objects of preserved types keep their content whatever else is forgotten
	if len(ct.Preserves) > 0 {
		oa := vc.get(old, vc.allocKey())
		var conds []Term
		for _, tn := range ct.Preserves {
			// a type that cannot be named from this package is simply not preserved here
			func() {
				defer func() {
					if r := recover(); r != nil {
						if _, isU := r.(unsupported); !isU {
							panic(r)
						}
					}
				}()
				t := env.resolveType(tn)
				conds = append(conds, tEq(sx("dtype", "r!q"), tInt(int64(vc.p.objID(t)))))
			}()
		}
		if len(conds) == 0 {
			conds = append(conds, tFalse)
		}
		var keys []string
		for k := range vc.keySort {
			if isHeapKey(k) && k != "alloc" {
				keys = append(keys, k)
			}
		}
		sort.Strings(keys)
		for _, k := range keys {
			ho, hn := vc.get(old, k), vc.get(st, k)
			if ho == hn {
				continue
			}
			vc.assumeRaw(fmt.Sprintf("(forall ((r!q Int)) (! (=> (and (< r!q %s) %s) (= (select %s r!q) (select %s r!q))) :pattern ((select %s r!q))))", oa, tOr(conds...), hn, ho, hn))
		}
	}
	res := vc.freshVal("r."+shortCallee(ct.Key), rt)
	vc.assume(st, vc.wellTyped(st, res))
	post := &SEnv{vc: vc, fr: fr, fn: envFn, cur: st, old: old, vars: env.vars, ct: ct, assumeMode: true}
	post.results = splitResults(vc, res, sig)
	for _, en := range ct.Ensures {
		if mentionsCallHistory(en.Expr) || ct.Lemmas[en] {
			continue // about the callee's own call history / locals: not visible to callers
		}
		vc.assume(st, post.evalBool(en.Expr))
	}
	return res
}

// mentionsCallHistory: the expression uses calls(L) or last(L).
func mentionsCallHistory(x SExpr) bool {
	found := false
	var walk func(x SExpr)
	walk = func(x SExpr) {
		switch x := x.(type) {
		case *SCall:
			if id, ok := x.Fun.(*SIdent); ok && (id.Name == "calls" || id.Name == "last" || id.Name == "at" || id.Name == "alltrue" || id.Name == "first" || id.Name == "before") {
				found = true
			}
			walk(x.Fun)
			for _, a := range x.Args {
				walk(a)
			}
		case *SBin:
			walk(x.L)
			walk(x.R)
		case *SUn:
			walk(x.X)
		case *SSel:
			walk(x.X)
		case *SIndex:
			walk(x.X)
			walk(x.I)
		case *SSlice:
			walk(x.X)
		case *SQuant:
			walk(x.Body)
		case *SCond:
			walk(x.C)
			walk(x.A)
			walk(x.B)
		}
	}
	walk(x)
	return found
}

// historyLabels collects the labels used by calls(L)/last(L) in a contract.
func historyLabels(ct *Contract) map[string]bool {
	out := map[string]bool{}
	var walk func(x SExpr)
	walk = func(x SExpr) {
		switch x := x.(type) {
		case *SCall:
			if id, ok := x.Fun.(*SIdent); ok && (id.Name == "calls" || id.Name == "last" || id.Name == "at" || id.Name == "alltrue" || id.Name == "first" || id.Name == "before") && len(x.Args) >= 1 {
				if l, ok := x.Args[0].(*SIdent); ok {
					out[l.Name] = true
				}
			}
			walk(x.Fun)
			for _, a := range x.Args {
				walk(a)
			}
		case *SBin:
			walk(x.L)
			walk(x.R)
		case *SUn:
			walk(x.X)
		case *SSel:
			walk(x.X)
		case *SIndex:
			walk(x.X)
			walk(x.I)
		case *SSlice:
			walk(x.X)
		case *SQuant:
			walk(x.Body)
		case *SCond:
			walk(x.C)
			walk(x.A)
			walk(x.B)
		}
	}
	for _, c := range ct.Requires {
		walk(c.Expr)
	}
	for _, c := range ct.Ensures {
		walk(c.Expr)
	}
	for _, ca := range ct.CallAsrt {
		walk(ca.Clause.Expr)
	}
	for _, ls := range ct.Loops {
		for _, cs := range [][]*Clause{ls.Invariants, ls.Steps, ls.Entry, ls.Assumes} {
			for _, c := range cs {
				walk(c.Expr)
			}
		}
	}
	for _, c := range ct.Assumes {
		walk(c.Expr)
	}
	return out
}

func splitResults(vc *VC, res Val, sig *types.Signature) []Val {
	rs := sig.Results()
	if rs.Len() <= 1 {
		if rs.Len() == 0 {
			return nil
		}
		return []Val{{T: rs.At(0).Type(), S: res.S}}
	}
	var out []Val
	off := 0
	for i := 0; i < rs.Len(); i++ {
		n := vc.p.lay.size(rs.At(i).Type())
		out = append(out, Val{T: rs.At(i).Type(), S: res.S[off : off+n]})
		off += n
	}
	return out
}

func bindParams(env *SEnv, names []string, args []Val) {
	for i, a := range args {
		env.vars[fmt.Sprintf("$%d", i)] = a
		if i < len(names) && names[i] != "" && names[i] != "_" {
			env.vars[names[i]] = a
		}
	}
}

// getterUF: the result of a getter is an uninterpreted function of the
// receiver and argument slots.
func (vc *VC) getterUF(key string, args []Val, rt types.Type) Val {
	var sorts, terms []string
	for _, a := range args {
		for j, k := range vc.p.lay.of(a.T).Kinds {
			sorts = append(sorts, k.Sort())
			terms = append(terms, a.S[j])
		}
	}
	res := Val{T: rt}
	for i, k := range vc.p.lay.of(rt).Kinds {
		name := fmt.Sprintf("getter.%s.%d", cleanName(key), i)
		vc.declareUF(name, "("+strings.Join(sorts, " ")+") "+k.Sort())
		if len(terms) == 0 {
			res.S = append(res.S, name)
		} else {
			res.S = append(res.S, sx(name, terms...))
		}
	}
	return res
}

// pureUF models a call of a function with a `pure` contract as an
// uninterpreted function of its argument slots; the ensures clauses are assumed
// for this application.
func (vc *VC) pureUF(fn *ssa.Function, ct *Contract, args []Val) Val {
	key := funcKey(fn)
	rt := vc.resultType(fn.Signature)
	var sorts, terms []string
	for i, p := range fn.Params {
		for j, k := range vc.p.lay.of(p.Type()).Kinds {
			sorts = append(sorts, k.Sort())
			terms = append(terms, args[i].S[j])
		}
		switch types.Unalias(p.Type()).Underlying().(type) {
		case *types.Basic:
		default:
			if !isNamed(p.Type(), "time", "Time") {
				vc.reject("pure contract on %s: parameter %s is not a scalar", key, p.Name())
			}
		}
	}
	res := Val{T: rt}
	for i, k := range vc.p.lay.of(rt).Kinds {
		name := fmt.Sprintf("pure.%s.%d", cleanName(key), i)
		vc.declareUF(name, "("+strings.Join(sorts, " ")+") "+k.Sort())
		res.S = append(res.S, sx(name, terms...))
	}
	// assume ensures for this application (also inside quantifiers: the
	// instance is part of the formula there, so it is added as a conjunct by
	// the caller; here only outside quantifiers)
	if vc.inQuant == 0 {
		tag := "pureapp:" + key + ":" + strings.Join(terms, ",")
		if !vc.uf[tag] {
			vc.uf[tag] = true
			env := &SEnv{vc: vc, fn: fn, cur: &State{pc: tTrue, v: map[string]Term{}}, vars: map[string]Val{}, ct: ct, assumeMode: true}
			env.fr = &Frame{vc: vc, fn: fn}
			env.old = env.cur
			var names []string
			for _, p := range fn.Params {
				names = append(names, p.Name())
			}
			bindParams(env, names, args)
			env.results = splitResults(vc, res, fn.Signature)
			vc.uf[tag] = true
			for _, en := range ct.Ensures {
				vc.assumeRaw(env.evalBool(en.Expr))
			}
			vc.assumeRaw(vc.wellTyped(env.cur, res))
		}
	}
	return res
}

// ---------------------------------------------------------------------------
// modifies targets

type modTarget struct {
	kind  string // slot | obj | map | counter | clock
	ref   Term
	off   Term
	kinds []Kind // slot kinds (slot targets)
	keyT  types.Type
	valT  types.Type
	name  string
	tid   int // kind "type": every object of this dynamic type
}

func (e *SEnv) modTargets(ms []SExpr) []modTarget {
	vc := e.vc
	var out []modTarget
	for _, m := range ms {
		switch x := m.(type) {
		case *SSel:
			if x.Name == "*" {
				base := e.eval(x.X)
				switch u := types.Unalias(base.T).Underlying().(type) {
				case *types.Pointer:
					out = append(out, modTarget{kind: "obj", ref: base.S[0]})
					_ = u
				case *types.Slice:
					out = append(out, modTarget{kind: "obj", ref: base.S[0]})
				case *types.Map:
					out = append(out, modTarget{kind: "map", ref: base.S[0], keyT: u.Key(), valT: u.Elem()})
				case *types.Interface:
					out = append(out, modTarget{kind: "obj", ref: base.S[1]})
				default:
					e.fail("modifies %s.*: not a pointer, slice, map or interface", exprText(x.X))
				}
				continue
			}
			a := e.addr(x)
			ft := a.T.(*types.Pointer).Elem()
			out = append(out, modTarget{kind: "slot", ref: a.S[0], off: a.S[1], kinds: vc.p.lay.of(ft).Kinds})
		case *SIndex:
			base := e.eval(x.X)
			if _, star := x.I.(*SStar); star {
				switch u := types.Unalias(base.T).Underlying().(type) {
				case *types.Map:
					out = append(out, modTarget{kind: "map", ref: base.S[0], keyT: u.Key(), valT: u.Elem()})
				case *types.Slice:
					out = append(out, modTarget{kind: "obj", ref: base.S[0]})
				default:
					e.fail("modifies x[*]: not a map or slice")
				}
				continue
			}
			a := e.addr(x)
			ft := a.T.(*types.Pointer).Elem()
			out = append(out, modTarget{kind: "slot", ref: a.S[0], off: a.S[1], kinds: vc.p.lay.of(ft).Kinds})
		case *SCall:
			id, _ := x.Fun.(*SIdent)
			if id != nil && id.Name == "calls" {
				out = append(out, modTarget{kind: "counter", name: x.Args[0].(*SIdent).Name})
				continue
			}
			if id != nil && id.Name == "clock" {
				out = append(out, modTarget{kind: "clock"})
				continue
			}
			if id != nil && id.Name == "objects" {
				// objects("T"): every object whose dynamic type is T (struct, slice
				// backing array or map)
				lit, ok := x.Args[0].(*SStr)
				if !ok {
					e.fail("objects(\"type\") expects a string literal")
				}
				t := e.resolveType(lit.V)
				out = append(out, modTarget{kind: "type", tid: vc.p.objID(t)})
				continue
			}
			e.fail("modifies: unsupported target")
		case *SUn:
			if x.Op == "*" {
				base := e.eval(x.X)
				pt := types.Unalias(base.T).Underlying().(*types.Pointer)
				out = append(out, modTarget{kind: "slot", ref: base.S[0], off: base.S[1], kinds: vc.p.lay.of(pt.Elem()).Kinds})
				continue
			}
			e.fail("modifies: unsupported target")
		case *SIdent:
			if x.Name == "heap" {
				out = append(out, modTarget{kind: "all"})
				continue
			}
			e.fail("modifies: bare identifier %s (use x.* or x.f)", x.Name)
		default:
			e.fail("modifies: unsupported target %T", m)
		}
	}
	return out
}

// havocTargets performs a functional havoc of the listed locations.
func (vc *VC) havocTargets(st *State, ts []modTarget) {
	hasType := false
	for _, t := range ts {
		if t.kind == "type" {
			hasType = true
		}
		if t.kind == "all" {
			vc.havocHeap(st) // "modifies heap": everything but the ghost call history
			return
		}
	}
	if hasType {
		// type-wide footprint: fresh heaps constrained by the frame formula
		old := st.clone()
		oldAlloc := vc.get(st, vc.allocKey())
		var keys []string
		for k := range vc.keySort {
			if isHeapKey(k) && k != "alloc" {
				keys = append(keys, k)
			}
		}
		sort.Strings(keys)
		for _, k := range keys {
			vc.havocKey(st, k)
		}
		for _, g := range vc.frameGoal(old, st, ts) {
			vc.assumeRaw(g.goal)
		}
		_ = oldAlloc
		for _, t := range ts {
			switch t.kind {
			case "counter", "clock":
				vc.havocTargets(st, []modTarget{t})
			}
		}
		return
	}
	for _, t := range ts {
		switch t.kind {
		case "all":
			vc.havocAll(st)
		case "slot":
			byKind := map[Kind]Term{}
			var order []Kind
			for i, k := range t.kinds {
				obj, ok := byKind[k]
				if !ok {
					obj = tSel(vc.get(st, vc.heapKey(k)), t.ref)
					order = append(order, k)
				}
				f := vc.fresh("hv.slot", k.Sort())
				byKind[k] = tSto(obj, tAdd(t.off, tInt(int64(i))), f)
			}
			for _, k := range order {
				key := vc.heapKey(k)
				vc.set(st, key, tSto(vc.get(st, key), t.ref, byKind[k]))
			}
		case "obj":
			for _, k := range allKinds {
				key := vc.heapKey(k)
				h := vc.get(st, key)
				f := vc.fresh("hv.obj", "(Array Int "+k.Sort()+")")
				// (nothing lives at the nil reference)
				vc.set(st, key, tSto(h, t.ref, tIte(tEq(t.ref, "0"), tSel(h, t.ref), f)))
			}
		case "map":
			ks, _ := vc.keySortOf(t.keyT)
			dk := vc.mapDomKey(t.keyT)
			vc.set(st, dk, tSto(vc.get(st, dk), t.ref, vc.fresh("hv.dom", fmt.Sprintf("(Array %s Bool)", ks))))
			lk := vc.mapLenKey()
			nl := vc.fresh("hv.len", "Int")
			vc.assumeRaw(tLe("0", nl))
			vc.set(st, lk, tSto(vc.get(st, lk), t.ref, nl))
			seen := map[Kind]bool{}
			for _, k := range vc.p.lay.of(t.valT).Kinds {
				if seen[k] {
					continue
				}
				seen[k] = true
				vk := vc.mapValKey(t.keyT, k)
				vc.set(st, vk, tSto(vc.get(st, vk), t.ref, vc.fresh("hv.mv", fmt.Sprintf("(Array %s (Array Int %s))", ks, k.Sort()))))
			}
		case "counter":
			key := "g.calls." + t.name
			vc.ensureKey(key, "Int")
			o := vc.get(st, key)
			n := vc.havocKey(st, key)
			vc.assumeRaw(tLe(o, n))
		case "clock":
			vc.ensureKey("g.clock", "Int")
			o := vc.get(st, "g.clock")
			n := vc.havocKey(st, "g.clock")
			vc.assumeRaw(tLe(o, n))
		}
	}
}

// frameGoal: the new state differs from the old one only inside the targets
// (for objects allocated in the old state).
func (vc *VC) frameGoal(old, cur *State, ts []modTarget) []struct {
	name string
	goal Term
} {
	return vc.frameGoalSkip(old, cur, ts, nil)
}

func (vc *VC) frameGoalSkip(old, cur *State, ts []modTarget, skip map[string]bool) []struct {
	name string
	goal Term
} {
	var out []struct {
		name string
		goal Term
	}
	for _, t := range ts {
		if t.kind == "all" {
			return nil
		}
	}
	oa := vc.get(old, vc.allocKey())
	allocd := func(r Term) Term {
		c := []Term{tLt(r, oa)}
		for _, t := range ts {
			if t.kind == "type" {
				c = append(c, tNot(tEq(sx("dtype", r), tInt(int64(t.tid)))))
			}
		}
		return tAnd(c...)
	}
	for _, k := range allKinds {
		key := vc.heapKey(k)
		ho, hn := vc.get(old, key), vc.get(cur, key)
		if ho == hn || skip[key] {
			continue
		}
		// expected: ho with the footprint overwritten by hn's values
		exp := ho
		for _, t := range ts {
			switch t.kind {
			case "obj":
				if t.kinds != nil {
					// the object is only written through values of these kinds
					has := false
					for _, tk := range t.kinds {
						if tk == k {
							has = true
						}
					}
					if !has {
						continue
					}
				}
				exp = tSto(exp, t.ref, tSel(hn, t.ref))
			case "slot":
				// overwrite the listed slots of one object without duplicating terms
				obj := tSel(exp, t.ref)
				nobj := tSel(hn, t.ref)
				changed := false
				for i, tk := range t.kinds {
					if tk == k {
						o := tAdd(t.off, tInt(int64(i)))
						obj = tSto(obj, o, tSel(nobj, o))
						changed = true
					}
				}
				if changed {
					exp = tSto(exp, t.ref, obj)
				}
			}
		}
		g := fmt.Sprintf("(forall ((r!q Int)) (! (=> %s (= (select %s r!q) (select %s r!q))) :pattern ((select %s r!q))))", allocd("r!q"), hn, exp, hn)
		out = append(out, struct {
			name string
			goal Term
		}{"heap-" + string(k), g})
	}
	// maps
	var mkeys []string
	for k := range vc.keySort {
		if k == "MLen" || strings.HasPrefix(k, "MD_") || strings.HasPrefix(k, "MV") {
			mkeys = append(mkeys, k)
		}
	}
	sort.Strings(mkeys)
	for _, key := range mkeys {
		ho, hn := vc.get(old, key), vc.get(cur, key)
		if ho == hn || skip[key] {
			continue
		}
		exp := ho
		for _, t := range ts {
			if t.kind == "map" {
				exp = tSto(exp, t.ref, tSel(hn, t.ref))
			}
		}
		g := fmt.Sprintf("(forall ((r!q Int)) (! (=> %s (= (select %s r!q) (select %s r!q))) :pattern ((select %s r!q))))", allocd("r!q"), hn, exp, hn)
		out = append(out, struct {
			name string
			goal Term
		}{"maps-" + key, g})
	}
	return out
}

// ---------------------------------------------------------------------------
// loops

func (fr *Frame) callIsPure(c *ssa.CallCommon) bool {
	vc := fr.vc
	key := ""
	if c.IsInvoke() {
		key = ifaceMethodKey(c)
	} else if f, ok := c.Value.(*ssa.Function); ok {
		if f.Origin() != nil {
			f = f.Origin()
		}
		key = funcKey(f)
		if pureModels[key] {
			return true
		}
		if _, isModel := models[key]; !isModel && vc.p.contracts[key] == nil && !inRepo(f) && scalarOnly(c.Signature()) {
			return true
		}
	}
	if ct := vc.p.contracts[key]; ct != nil {
		return ct.Pure || ct.Getter || (ct.HasMod && len(ct.Modifies) == 0)
	}
	return false
}

func (fr *Frame) loopSpec(li *loopInfo) *LoopSpec {
	if fr.top && fr.contract != nil {
		if ls := fr.contract.Loops[li.ord]; ls != nil {
			return ls
		}
	}
	return &LoopSpec{}
}

func (fr *Frame) loopHead(st *State, li *loopInfo) {
	vc := fr.vc
	if !fr.top {
		vc.reject("loop in inlined function %s", funcKey(fr.fn))
	}
	ls := fr.loopSpec(li)
	// 1. invariants hold on entry
	env := fr.specEnv(st, nil)
	env.block = li.header
	env.localsFirst = true
	for _, inv := range ls.Invariants {
		name := fmt.Sprintf("%s/loop%d/invariant[%s]/init", vc.fnKey, li.ord, inv.Label)
		vc.oblige(st, name, "invariant-init", env.evalBool(inv.Expr), inv.Text)
	}
	for _, en := range ls.Entry {
		name := fmt.Sprintf("%s/loop%d/entry[%s]", vc.fnKey, li.ord, en.Label)
		vc.oblige(st, name, "loop-entry", env.evalBool(en.Expr), en.Text)
	}
	var frameTs []modTarget
	hasFrame := fr.contract != nil && fr.contract.HasMod
	if hasFrame {
		fenv := fr.specEnv(fr.entry, fr.entry)
		frameTs = fenv.modTargets(fr.contract.Modifies)
		for _, g := range vc.frameGoal(fr.entry, st, frameTs) {
			name := fmt.Sprintf("%s/loop%d/modifies[%s]/init", vc.fnKey, li.ord, g.name)
			vc.oblige(st, name, "modifies", g.goal, "modifies clause (frame) before loop")
		}
	}
	// 2. havoc what the loop writes
	pre := st.clone()
	eff := fr.loopEffects(pre, li)
	if ls.HasWrites && fr.top && !vc.quiet {
		// syntactic obligation: locals declared outside the loop that it assigns
		allowed := map[string]bool{}
		for _, w := range ls.Writes {
			allowed[w] = true
		}
		var extra []string
		for _, a := range eff.locals {
			if li.blocks[a.Block()] || a.Comment == "" || a.Comment == "rangeindex" || strings.HasPrefix(a.Comment, "range") {
				continue // declared inside the loop / synthetic
			}
			if !allowed[a.Comment] {
				extra = append(extra, a.Comment)
			}
		}
		sort.Strings(extra)
		stt := "unsat"
		if len(extra) > 0 {
			stt = "sat"
		}
		vc.obls = append(vc.obls, &Obligation{Name: fmt.Sprintf("%s/loop%d/writes", vc.fnKey, li.ord), Kind: "scan", Goal: tTrue, Func: vc.fnKey,
			Pos: vc.p.pos(vc.curPos), Clause: "loop assigns only: " + strings.Join(ls.Writes, ", "),
			Result: &SolverResult{Status: stt, Solver: "syntactic-scan", Output: "also assigns: " + strings.Join(extra, ", ")}})
	}
	locals := eff.locals
	for _, a := range locals {
		lay := vc.p.lay.of(a.Type().(*types.Pointer).Elem())
		for i := range lay.Kinds {
			key := fr.localKey(a, i)
			vc.ensureKey(key, lay.Kinds[i].Sort())
			if _, ok := st.v[key]; ok {
				vc.havocKey(st, key)
			}
		}
	}
	for _, k := range eff.extraKeys {
		if _, ok := st.v[k]; ok && !strings.HasSuffix(k, ":dom0") {
			vc.havocKey(st, k)
		}
	}
	oldAlloc := vc.get(st, vc.allocKey())
	if eff.heapAll {
		vc.havocHeap(st)
		if vc.keySort["g.clock"] != "" {
			o := vc.get(st, "g.clock")
			n := vc.havocKey(st, "g.clock")
			vc.assumeRaw(tLe(o, n))
		}
	} else {
		var ks []string
		for k := range eff.kinds {
			ks = append(ks, k)
		}
		sort.Strings(ks)
		for _, k := range ks {
			vc.havocKey(st, k)
		}
		if eff.kinds["alloc"] {
			na := vc.get(st, "alloc")
			vc.assumeRaw(tLe(oldAlloc, na))
		}
		// syntactic frame: objects allocated before the loop and not written
		// by any store of the loop keep their content
		for _, g := range vc.frameGoalSkip(pre, st, eff.targets, eff.unresolved) {
			vc.assume(st, g.goal)
		}
	}
	// call-history ghost state touched by the loop (counters and last results)
	{
		seenLab := map[string]bool{}
		for _, lab := range eff.counters {
			if seenLab[lab] {
				continue
			}
			seenLab[lab] = true
			k := "g.calls." + lab
			vc.ensureKey(k, "Int")
			o := vc.get(st, k)
			n := vc.havocKey(st, k)
			vc.assumeRaw(tLe(o, n))
			for gk := range vc.keySort {
				if strings.HasPrefix(gk, "g.last."+lab+":") {
					vc.havocKey(st, gk)
				}
			}
			if ak := "g.all." + lab; vc.keySort[ak] != "" {
				o := vc.get(st, ak)
				n := vc.havocKey(st, ak)
				vc.assumeRaw(tImp(n, o))
			}
			vc.forgetFirst(st, lab, o)
		}
	}
	// 3. assume frame and invariants for an arbitrary iteration
	if hasFrame {
		for _, g := range vc.frameGoal(fr.entry, st, frameTs) {
			vc.assume(st, g.goal)
		}
	}
	env2 := fr.specEnv(st, nil)
	env2.block = li.header
	env2.localsFirst = true
	env2.assumeMode = true
	for _, inv := range ls.Invariants {
		vc.assume(st, env2.evalBool(inv.Expr))
	}
	for _, as := range ls.Assumes {
		vc.assume(st, env2.evalBool(as.Expr))
		vc.trusted[fmt.Sprintf("assumed-loop-invariant:%s/loop%d[%s]: %s", vc.fnKey, li.ord, as.Label, as.Text)] = true
	}
	// typing facts of havocked locals
	for _, a := range locals {
		if _, ok := st.v[fr.localKey(a, 0)]; ok {
			vc.assume(st, vc.wellTyped(st, fr.getLocal(st, a)))
		}
	}
	li.headSt = st.clone()
}

func (fr *Frame) loopBack(st *State, li *loopInfo, from *ssa.BasicBlock) {
	vc := fr.vc
	ls := fr.loopSpec(li)
	li.backs++
	savedPos := vc.curPos
	defer func() { vc.curPos = savedPos }()
	suffix := ""
	if li.backs > 1 {
		suffix = fmt.Sprintf("#%d", li.backs)
	}
	env := fr.specEnv(st, nil)
	env.block = li.header
	env.localsFirst = true
	for _, inv := range ls.Invariants {
		name := fmt.Sprintf("%s/loop%d/invariant[%s]/preserve%s", vc.fnKey, li.ord, inv.Label, suffix)
		vc.oblige(st, name, "invariant-preserve", env.evalBool(inv.Expr), inv.Text)
	}
	// per-iteration postconditions: $head(e) is e at the start of this iteration
	env.headSt = li.headSt
	env.block = from // the locals of the body are in scope at the back edge
	for _, sc := range ls.Steps {
		name := fmt.Sprintf("%s/loop%d/step[%s]/preserve%s", vc.fnKey, li.ord, sc.Label, suffix)
		vc.oblige(st, name, "loop-step", env.evalBool(sc.Expr), sc.Text)
	}
	if fr.contract != nil && fr.contract.HasMod {
		fenv := fr.specEnv(fr.entry, fr.entry)
		ts := fenv.modTargets(fr.contract.Modifies)
		for _, g := range vc.frameGoal(fr.entry, st, ts) {
			name := fmt.Sprintf("%s/loop%d/modifies[%s]/preserve%s", vc.fnKey, li.ord, g.name, suffix)
			vc.oblige(st, name, "modifies", g.goal, "modifies clause (frame) across loop iteration")
		}
	}
}

// rangeIndex: number of completed iterations of range-over-slice loop k.
func (fr *Frame) rangeIndex(st *State, k int) Term {
	for _, li := range fr.loops {
		if li.ord != k {
			continue
		}
		for _, in := range li.header.Instrs {
			if u, ok := in.(*ssa.UnOp); ok && u.Op == token.MUL {
				if a, ok := u.X.(*ssa.Alloc); ok && a.Comment == "rangeindex" {
					return tAdd(fr.getLocal(st, a).S[0], "1")
				}
			}
		}
	}
	fr.vc.reject("$idx(%d): loop is not a range over a slice/array/int", k)
	return ""
}

// rangeValue: the slice (or array pointer) that range loop k iterates over; it
// is evaluated once before the loop, so its header is a register value.
func (fr *Frame) rangeValue(st *State, k int) Val {
	for _, li := range fr.loops {
		if li.ord != k {
			continue
		}
		for _, in := range li.header.Instrs {
			b, ok := in.(*ssa.BinOp)
			if !ok || b.Op != token.LSS {
				continue
			}
			if c, ok := b.Y.(*ssa.Call); ok {
				if bi, ok := c.Call.Value.(*ssa.Builtin); ok && bi.Name() == "len" && len(c.Call.Args) == 1 {
					v := fr.val(st, c.Call.Args[0])
					v.T = c.Call.Args[0].Type()
					return v
				}
			}
		}
	}
	fr.vc.reject("$rng(%d): loop is not a range over a slice", k)
	return Val{}
}

func (fr *Frame) rangeOfLoop(k int) *ssa.Range {
	for _, li := range fr.loops {
		if li.ord != k {
			continue
		}
		for _, in := range li.header.Instrs {
			if n, ok := in.(*ssa.Next); ok {
				if r, ok := n.Iter.(*ssa.Range); ok {
					return r
				}
			}
		}
	}
	fr.vc.reject("$seen(%d): loop is not a range over a map", k)
	return nil
}

func (fr *Frame) rangeSeen(st *State, k int) Term { return st.v[fr.rangeKey(fr.rangeOfLoop(k))] }
func (fr *Frame) rangeDom0(st *State, k int) Term {
	return st.v[fr.rangeKey(fr.rangeOfLoop(k))+":dom0"]
}

// lookupLocal finds a source-level local variable by name.
func (fr *Frame) lookupLocal(st *State, name string, at *ssa.BasicBlock) (Val, bool) {
	vc := fr.vc
	type cand struct {
		v      ssa.Value
		isAddr bool
	}
	var cands []cand
	seen := map[ssa.Value]bool{}
	for _, b := range fr.fn.Blocks {
		for _, in := range b.Instrs {
			switch x := in.(type) {
			case *ssa.Alloc:
				if x.Comment == name && !seen[x] {
					seen[x] = true
					cands = append(cands, cand{x, true})
				}
			case *ssa.DebugRef:
				if id, ok := x.Expr.(interface{ String() string }); ok {
					_ = id
				}
				if obj := x.Object(); obj != nil && x.IsAddr && obj.Name() == name && !seen[x.X] {
					if _, isVar := obj.(*types.Var); isVar {
						seen[x.X] = true
						cands = append(cands, cand{x.X, x.IsAddr})
					}
				}
			}
		}
	}
	// keep candidates that are available in the current state
	var best *cand
	bestDepth := -1
	for i := range cands {
		c := &cands[i]
		avail := false
		depth := 0
		switch v := c.v.(type) {
		case *ssa.Alloc:
			if fr.reg[v] {
				_, avail = st.v[fr.localKey(v, 0)]
				if vc.p.lay.size(v.Type().(*types.Pointer).Elem()) == 0 {
					avail = true
				}
			} else {
				_, avail = fr.vals[v]
			}
			depth = domDepth(v.Block())
			if at != nil && !v.Block().Dominates(at) {
				avail = false
			}
		case *ssa.Parameter, *ssa.FreeVar:
			avail = true
		case ssa.Instruction:
			_, avail = fr.vals[c.v]
			depth = domDepth(v.Block())
			if at != nil && !v.Block().Dominates(at) {
				avail = false
			}
		}
		if avail && depth > bestDepth {
			best, bestDepth = c, depth
		}
	}
	if best == nil {
		return Val{}, false
	}
	if !best.isAddr {
		return fr.val(st, best.v), true
	}
	if a, ok := best.v.(*ssa.Alloc); ok && fr.reg[a] {
		return fr.getLocal(st, a), true
	}
	p := fr.val(st, best.v)
	return vc.loadAt(st, p.S[0], p.S[1], best.v.Type().Underlying().(*types.Pointer).Elem()), true
}

// lookupLocalAddr: the address of a source-level local that is kept in memory.
func (fr *Frame) lookupLocalAddr(st *State, name string, at *ssa.BasicBlock) (Val, bool) {
	var best *ssa.Alloc
	bestDepth := -1
	for _, b := range fr.fn.Blocks {
		for _, in := range b.Instrs {
			a, ok := in.(*ssa.Alloc)
			if !ok || a.Comment != name || fr.reg[a] {
				continue
			}
			if _, avail := fr.vals[a]; !avail {
				continue
			}
			if at != nil && !a.Block().Dominates(at) {
				continue
			}
			if d := domDepth(a.Block()); d > bestDepth {
				best, bestDepth = a, d
			}
		}
	}
	if best == nil {
		return Val{}, false
	}
	return fr.val(st, best), true
}

func domDepth(b *ssa.BasicBlock) int {
	d := 0
	for x := b.Idom(); x != nil; x = x.Idom() {
		d++
	}
	return d
}

// topContract: the contract of the function being verified (nil inside inlined frames without one).
func (fr *Frame) topContract() *Contract {
	t := fr
	for t.up != nil {
		t = t.up
	}
	if t.top {
		return t.contract
	}
	return nil
}

func fieldName(fa *ssa.FieldAddr) string {
	if pt, ok := fa.X.Type().Underlying().(*types.Pointer); ok {
		if st, ok := pt.Elem().Underlying().(*types.Struct); ok && fa.Field < st.NumFields() {
			return st.Field(fa.Field).Name()
		}
	}
	return "?"
}

// markHelperAssertions: a call-site assertion whose pattern matches no call
// site of the function itself applies inside the callees expanded in place.
func (fr *Frame) markHelperAssertions() {
	if fr.contract == nil {
		return
	}
	keys := map[string]int{}
	for _, b := range fr.fn.Blocks {
		for _, in := range b.Instrs {
			ci, ok := in.(ssa.CallInstruction)
			if !ok {
				continue
			}
			c := ci.Common()
			k := ""
			if c.IsInvoke() {
				k = ifaceMethodKey(c)
			} else {
				switch v := c.Value.(type) {
				case *ssa.Function:
					f := v
					if f.Origin() != nil {
						f = f.Origin()
					}
					k = funcKey(f)
				case *ssa.MakeClosure:
					k = funcKey(v.Fn.(*ssa.Function))
				case *ssa.UnOp:
					if g, ok := v.X.(*ssa.Global); ok && g.Pkg != nil {
						k = g.Pkg.Pkg.Name() + "." + g.Name()
					}
					if fa, ok := v.X.(*ssa.FieldAddr); ok {
						k = "field." + fieldName(fa)
					}
					if cv, ok := v.X.(*ssa.FreeVar); ok {
						k = "captured." + cv.Name()
					}
				}
			}
			if k != "" {
				keys[k]++
			}
		}
	}
	for _, ca := range fr.contract.CallAsrt {
		found := false
		for k, n := range keys {
			if calleeMatches(k, ca.Callee) && (ca.Ord == 0 || ca.Ord <= n) {
				found = true
			}
		}
		ca.InHelpers = !found
	}
}
