package main

// Property driver: govc check -prop Cxx [-tier quick|thorough]

import (
	"bytes"
	"context"
	"encoding/json"
	"flag"
	"fmt"
	"os"
	"os/exec"
	"path/filepath"
	"regexp"
	"sort"
	"strconv"
	"strings"
	"time"
)

type PropSpec struct {
	Pkgs   []string `json:"pkgs"`
	Level  string   `json:"level"` // proof | other
	Note   string   `json:"note"`
	Claim  string   `json:"claim"`
	Extra  []string `json:"extra_funcs"` // functions verified for this property besides those tagged with props
	Replay string   `json:"replay"`      // optional replay driver name
	// bounded stand-ins: exhaustive runs of the real function over a stated
	// finite input space, for code the verifier cannot reach (floating point);
	// reported apart from the proved obligations and never counted as proved
	Bounded []BoundedSpec `json:"bounded"`
}

type BoundedSpec struct {
	Name      string `json:"name"`       // obligation-like name
	Pkg       string `json:"pkg"`        // package directory (relative to the repository) the test is injected into
	File      string `json:"file"`       // test file under /verif/bounded/
	Run       string `json:"run"`        // test name
	Bound     string `json:"bound"`      // the input space, in words
	ThoroughX string `json:"thorough_x"` // value of VERIF_BOUND_SCALE in the thorough tier
}

type knownFinding struct {
	Prop, Obligation, What string
}

func loadKnownFindings(file string) ([]knownFinding, []string) {
	data, err := os.ReadFile(file)
	if err != nil {
		return nil, nil
	}
	var out []knownFinding
	var fixed []string
	for _, l := range strings.Split(string(data), "\n") {
		l = strings.TrimSpace(l)
		if strings.HasPrefix(l, "fixed:") {
			fixed = append(fixed, l)
			continue
		}
		if !strings.HasPrefix(l, "finding:") {
			continue
		}
		f := strings.Fields(strings.TrimPrefix(l, "finding:"))
		kf := knownFinding{}
		var rest []string
		for _, w := range f {
			switch {
			case strings.HasPrefix(w, "property="):
				kf.Prop = strings.TrimPrefix(w, "property=")
			case strings.HasPrefix(w, "obligation="):
				kf.Obligation = strings.TrimPrefix(w, "obligation=")
			default:
				rest = append(rest, w)
			}
		}
		kf.What = strings.Join(rest, " ")
		out = append(out, kf)
	}
	return out, fixed
}

type evObl struct {
	Name   string `json:"name"`
	Kind   string `json:"kind"`
	Status string `json:"status"`
	Solver string `json:"solver,omitempty"`
	Ms     int64  `json:"ms"`
	Pos    string `json:"pos,omitempty"`
	Clause string `json:"clause,omitempty"`
}

func cmdCheck(args []string) {
	fs := flag.NewFlagSet("check", flag.ExitOnError)
	repo := fs.String("repo", repoDirDefault(), "repository")
	prop := fs.String("prop", "", "property id")
	tier := fs.String("tier", "", "quick|thorough")
	updateLock := fs.Bool("update-lock", false, "rewrite the lock entry of this property from this run (never used by registered checks)")
	fs.Parse(args)
	if *tier == "" {
		*tier = os.Getenv("VERIF_TIER")
	}
	if *tier == "" {
		*tier = "quick"
	}
	seed, _ := strconv.Atoi(os.Getenv("VERIF_SEED"))
	vdir := verifDir()
	t0 := time.Now()

	var props map[string]*PropSpec
	data, err := os.ReadFile(filepath.Join(vdir, "contracts", "props.json"))
	if err != nil {
		fatal("props.json: %v", err)
	}
	if err := json.Unmarshal(data, &props); err != nil {
		fatal("props.json: %v", err)
	}
	ps := props[*prop]
	if ps == nil {
		fatal("unknown property %q", *prop)
	}
	p, err := loadProg(*repo, ps.Pkgs)
	if err != nil {
		fatal("load: %v", err)
	}
	if err := p.loadContracts(filepath.Join(vdir, "contracts", "extern")); err != nil {
		fatal("contracts: %v", err)
	}
	loadS := time.Since(t0).Seconds()
	fns := p.allFuncs()
	var keys []string
	for k, c := range p.contracts {
		if c.Extern {
			continue
		}
		for _, pr := range c.Props {
			if pr == *prop {
				keys = append(keys, k)
			}
		}
	}
	keys = append(keys, ps.Extra...)
	sort.Strings(keys)
	var results []*FuncResult
	var problems []string // machinery problems (not violations)
	missingFuncs := map[string]bool{}
	for _, k := range keys {
		ct := p.contracts[k]
		fn := fns[baseKey(k)]
		if ct == nil {
			problems = append(problems, "no contract for "+k)
			continue
		}
		if fn != nil && fn.Pkg != nil && ct.File != "" && !strings.HasPrefix(ct.File, "/") {
			// two packages of the same name (…/ingress/types, …/haproxy/types) give the
			// same short key to their package-level functions: take the one that
			// lives where the contract file lives
			if dir := filepath.Dir(ct.File); !strings.HasSuffix(fn.Pkg.Pkg.Path(), dir) {
				if alt := p.funcInDir(baseKey(k), dir); alt != nil {
					fn = alt
				}
			}
		}
		if fn == nil {
			missingFuncs[k] = true
			continue
		}
		results = append(results, p.verifyFunc(fn, ct))
	}
	timeout := 20
	all := false
	if *tier == "thorough" {
		timeout = 60
		all = true
	}
	rdir := filepath.Join(vdir, "replay", *prop)
	os.RemoveAll(rdir)
	os.MkdirAll(rdir, 0o755)
	smtDir := filepath.Join(rdir, "smt")
	// lock file
	lockFile := filepath.Join(vdir, "obligations.lock.json")
	lock := map[string][]string{}
	if d, err := os.ReadFile(lockFile); err == nil {
		json.Unmarshal(d, &lock)
	}
	locked := map[string]bool{}
	for _, n := range lock[*prop] {
		locked[n] = true
	}
	retryFilter = func(name string) bool { return locked[name] }
	runObligations(results, smtDir, timeout, seed, all)

	// in-repository callees without contract that could not be inlined, per function
	// under contract; the pinned set is kept in the lock file
	pinnedOpaque := map[string]bool{}
	for _, pr := range lock[*prop+"#opaque"] {
		pinnedOpaque[pr] = true
	}
	newOpaque := map[string][]string{}
	var allOpaque []string
	for _, r := range results {
		if r.VC == nil {
			continue
		}
		for g := range r.VC.opaque {
			pair := r.Key + " -> " + g
			allOpaque = append(allOpaque, pair)
			if !pinnedOpaque[pair] && len(lock[*prop]) > 0 {
				newOpaque[r.Key] = append(newOpaque[r.Key], g)
			}
		}
	}
	sort.Strings(allOpaque)
	known, _ := loadKnownFindings(filepath.Join(vdir, "known_findings.txt"))
	isKnown := func(name string) *knownFinding {
		for i := range known {
			if known[i].Obligation == name {
				return &known[i]
			}
		}
		return nil
	}

	var evs []evObl
	generated := map[string]bool{}
	nObl, nDis := 0, 0
	var solverMs int64
	violations := 0
	trusted := map[string]bool{}
	var funcsUnder []string
	var outLines []string
	vacuous := 0
	for _, r := range results {
		funcsUnder = append(funcsUnder, r.Key)
		if r.Err != "" {
			// function found but outside the engine's subset now
			file := filepath.Join(rdir, sanitizeFile(r.Key)+".rejected.txt")
			os.WriteFile(file, []byte(fmt.Sprintf("function %s could not be translated: %s\nEvery obligation of this function that was discharged on the pinned tree is undecided now.\n", r.Key, r.Err)), 0o644)
			hadLocked := false
			for n := range locked {
				if strings.HasPrefix(n, r.Key+"/") {
					hadLocked = true
				}
			}
			if hadLocked && !strings.Contains(r.Err, "global invariant") && (strings.Contains(r.Err, "unknown identifier") || strings.Contains(r.Err, "loop is not a range") || strings.Contains(r.Err, "no counted call seen")) {
				// the contract names a local variable that the function no longer has
				// (renamed or removed): the contract needs maintenance; nothing is
				// decided about this function, which is not evidence of a violation
				problems = append(problems, "UNDECIDED "+r.Key+": the contract refers to a name the code no longer has ("+r.Err+"); its obligations were not generated")
			} else if hadLocked {
				outLines = append(outLines, fmt.Sprintf("VIOLATION property=%s replay=%s obligations of %s no longer generated (%s) no-failing-input-found", *prop, file, r.Key, r.Err))
				violations++
			} else {
				problems = append(problems, "rejected "+r.Key+": "+r.Err)
			}
			// syntactic obligations decided before the translation stopped still count
			var scans []*Obligation
			for _, o := range r.VC.obls {
				if o.Kind == "scan" && o.Result != nil {
					scans = append(scans, o)
				}
			}
			r.VC.obls = scans
			if len(scans) == 0 {
				continue
			}
		}
		for _, e := range r.VC.errs {
			problems = append(problems, r.Key+": "+e)
		}
		for t := range r.VC.trusted {
			trusted[t] = true
		}
		for t := range r.VC.notes {
			trusted["note:"+t] = true
		}
		for _, o := range r.VC.obls {
			generated[o.Name] = true
			st := o.Result.Status
			solverMs += o.Result.Millis
			if o.Cover {
				if st == "unsat" && strings.Contains(o.Name, "/cover[return") {
					// a single return site may be dead code (an error branch after a callee
					// that never fails, a path excluded by a variant's precondition); an
					// assumption that contradicts itself kills every return after it too,
					// so a dead return is reported only if no later return site is live
					laterLive := false
					seenSelf := false
					for _, o2 := range r.VC.obls {
						if o2 == o {
							seenSelf = true
							continue
						}
						if o2.Cover && strings.Contains(o2.Name, "/cover[return") && o2.Result.Status != "unsat" &&
							(seenSelf || strings.Contains(r.Key, "#")) {
							// (a contract variant selects paths by its precondition: any live return will do)
							laterLive = true
						}
					}
					if laterLive {
						trusted["note:"+o.Name+" is unreachable (dead return site; later return sites are reachable)"] = true
						continue
					}
				}
				if st == "unsat" {
					vacuous++
					file := filepath.Join(rdir, sanitizeFile(o.Name)+".vacuous.txt")
					os.WriteFile(file, []byte("cover query is unsat: "+o.Name+"\n"+o.Clause+"\n"), 0o644)
					problems = append(problems, "VACUOUS-CONTRACT "+o.Name)
				}
				continue
			}
			nObl++
			evs = append(evs, evObl{Name: o.Name, Kind: o.Kind, Status: st, Solver: o.Result.Solver, Ms: o.Result.Millis, Pos: o.Pos, Clause: o.Clause})
			if st == "unsat" {
				nDis++
				continue
			}
			// not discharged
			if st == "error" {
				problems = append(problems, "SOLVER-ERROR on "+o.Name+": "+strings.ReplaceAll(o.Result.Output, "\n", " "))
			}
			file := filepath.Join(rdir, sanitizeFile(o.Name)+".txt")
			var b strings.Builder
			fmt.Fprintf(&b, "property:   %s\nobligation: %s\nkind:       %s\nfunction:   %s\nposition:   %s\nclause:     %s\nstatus:     %s\nsmt file:   %s\n\nsolver output:\n%s\n", *prop, o.Name, o.Kind, o.Func, o.Pos, o.Clause, st,
				filepath.Join(smtDir, sanitizeFile(o.Name)+".smt2"), o.Result.Output)
			if o.Result.Model != "" {
				fmt.Fprintf(&b, "\ncandidate counterexample (quantifier-free theory, z3-new):\n%s\n", trimModel(o.Result.Model))
			}
			replayed := false
			{
				if rep := tryReplay(p, vdir, *prop, o, r.VC, rdir); rep != "" {
					b.WriteString("\nreplay on the real code:\n" + rep + "\n")
					replayed = strings.Contains(rep, "REPLAY-CONFIRMED")
				}
			}
			os.WriteFile(file, []byte(b.String()), 0o644)
			if kf := isKnown(o.Name); kf != nil {
				outLines = append(outLines, fmt.Sprintf("KNOWN-FINDING: property=%s %s (%s)", *prop, kf.What, o.Name))
				continue
			}
			if !locked[o.Name] && !*updateLock && len(lock[*prop]) > 0 && !knownBase(o.Name, locked, known, *prop) {
				// a new obligation that never discharged on the pinned tree: undecided, not a violation
				problems = append(problems, "UNCLAIMED-OBLIGATION not discharged: "+o.Name+" ("+st+")")
				continue
			}
			if gs := newOpaque[r.Key]; len(gs) > 0 && !replayed {
				// modular verification cannot see through a function that has no
				// contract: code was moved into a new helper (or a helper grew a loop)
				sort.Strings(gs)
				problems = append(problems, fmt.Sprintf("UNDECIDED %s (%s): %s now calls %s, which has no contract and cannot be expanded; the obligation is undecided until that function gets a contract", o.Name, st, r.Key, strings.Join(gs, ", ")))
				continue
			}
			suffix := ""
			if !replayed {
				suffix = " no-failing-input-found"
			}
			outLines = append(outLines, fmt.Sprintf("VIOLATION property=%s replay=%s obligation=%s status=%s%s", *prop, file, o.Name, st, suffix))
			violations++
		}
	}
	// missing obligations
	var missing []string
	for n := range locked {
		if !generated[n] {
			rejected := false
			for _, r := range results {
				if r.Err != "" && strings.HasPrefix(n, r.Key+"/") {
					rejected = true
				}
			}
			if !rejected {
				missing = append(missing, n)
			}
		}
	}
	sort.Strings(missing)
	// an obligation that discharged on the pinned tree and is not generated any
	// more (call site, loop or whole function gone): what it established is no
	// longer established
	byFunc := map[string][]string{}
	var fnOrder []string
	genBase := map[string]bool{}
	for n := range generated {
		genBase[clauseBase(n)] = true
	}
	for _, m := range missing {
		outLines = append(outLines, "MISSING-OBLIGATION "+m)
		if genBase[clauseBase(m)] {
			// the clause is still checked at other sites: the code changed shape
			// (a return, back edge or dereference went away), nothing is lost
			continue
		}
		k := m
		if i := strings.Index(m, "/"); i > 0 {
			k = m[:i]
		}
		if byFunc[k] == nil {
			fnOrder = append(fnOrder, k)
		}
		byFunc[k] = append(byFunc[k], m)
	}
	for _, k := range fnOrder {
		if gs := newOpaque[k]; len(gs) > 0 {
			sort.Strings(gs)
			problems = append(problems, fmt.Sprintf("UNDECIDED %s: obligations %v are not generated any more and %s now calls %s, which has no contract and cannot be expanded (code moved into a helper)", k, byFunc[k], k, strings.Join(gs, ", ")))
			continue
		}
		file := filepath.Join(rdir, sanitizeFile(k)+".missing.txt")
		why := "the function still exists but these obligations are not generated from the current source (the call site, loop or return they were attached to is gone)"
		if missingFuncs[k] {
			// renamed, inlined into its callers or deleted: nothing can be said about
			// it; what its callers must still do is carried by their own contracts
			problems = append(problems, fmt.Sprintf("UNDECIDED %s: the function under contract does not exist in the current source (renamed, inlined or deleted); its obligations %v were not generated", k, byFunc[k]))
			continue
		}
		os.WriteFile(file, []byte(fmt.Sprintf("property: %s\nfunction: %s\n%s\nobligations discharged on the pinned tree and missing now:\n  %s\n", *prop, k, why, strings.Join(byFunc[k], "\n  "))), 0o644)
		outLines = append(outLines, fmt.Sprintf("VIOLATION property=%s replay=%s obligation=%s (and %d more) status=missing no-failing-input-found", *prop, file, byFunc[k][0], len(byFunc[k])-1))
		violations++
	}
	if nObl == 0 {
		problems = append(problems, "no obligations generated")
	}
	if *updateLock {
		var names []string
		for _, e := range evs {
			if e.Status == "unsat" {
				names = append(names, e.Name)
			}
		}
		sort.Strings(names)
		lock[*prop] = names
		lock[*prop+"#opaque"] = allOpaque
		d, _ := json.MarshalIndent(lock, "", " ")
		os.WriteFile(lockFile, append(d, '\n'), 0o644)
	}

	var boundedEv []map[string]interface{}
	for _, b := range ps.Bounded {
		res := runBounded(*repo, vdir, rdir, *tier, b)
		boundedEv = append(boundedEv, res.ev)
		if res.fail {
			file := filepath.Join(rdir, sanitizeFile(b.Name)+".bounded.txt")
			os.WriteFile(file, []byte(res.out), 0o644)
			if kf := isKnown(b.Name); kf != nil {
				outLines = append(outLines, fmt.Sprintf("KNOWN-FINDING: property=%s %s (%s)", *prop, kf.What, b.Name))
			} else {
				outLines = append(outLines, fmt.Sprintf("VIOLATION property=%s replay=%s obligation=%s status=bounded-counterexample (failing input printed by the real code)", *prop, file, b.Name))
				violations++
			}
		} else if res.broken {
			problems = append(problems, "bounded check "+b.Name+" did not run: "+firstLine(res.out))
		}
	}

	level := ps.Level
	if level == "" {
		level = "proof"
	}
	if nDis != nObl || len(missing) > 0 || len(problems) > 0 {
		level = "other"
	}
	var tb []string
	for t := range trusted {
		tb = append(tb, t)
	}
	sort.Strings(tb)
	tb = append(tb, "abstraction: mathematical integers (machine ranges assumed for inputs, overflow unchecked)",
		"abstraction: strings as an uninterpreted sort with length/byte/concat/slice/prefix/order axioms (no UTF-8)",
		"abstraction: floats uninterpreted; time.Time reduced to an instant; panics end a path (normal-return semantics) unless the function is marked safe",
		"abstraction: goroutines not modelled; sync.Mutex is a ghost held-flag",
		"generator: govc (this repository), SSA naive form of the current working tree; solvers z3 4.8.12, z3-new 5.1.0, cvc5 1.0")
	samples := []interface{}{}
	for i, e := range evs {
		if i >= 5 {
			break
		}
		samples = append(samples, map[string]interface{}{"obligation": e.Name, "kind": e.Kind, "clause": e.Clause, "status": e.Status, "solver": e.Solver, "ms": e.Ms,
			"smt": filepath.Join(smtDir, sanitizeFile(e.Name)+".smt2")})
	}
	sort.Strings(funcsUnder)
	cov := map[string]interface{}{
		"obligations":              nObl,
		"discharged":               nDis,
		"checker_cmd":              fmt.Sprintf("bin/govc check -prop %s -tier %s (z3-new|cvc5|z3 raced per obligation, %ds limit)", *prop, *tier, timeout),
		"trusted_base":             tb,
		"samples":                  samples,
		"functions_under_contract": funcsUnder,
		"obligation_list":          evs,
		"solver_ms_total":          solverMs,
		"load_s":                   loadS,
		"missing_obligations":      missing,
		"opaque_callees":           allOpaque,
		"machinery_problems":       problems,
		"known_findings_printed":   countPrefix(outLines, "KNOWN-FINDING"),
		"vacuity":                  fmt.Sprintf("%d cover queries unsat (must be 0); every function has an entry cover and a cover per return site", vacuous),
		"explanation":              explanation(ps),
		"evaluations":              nObl,
		"distinct_nontrivial":      nDis,
		"bounded_checks":           boundedEv,
		"rule":                     "one SMT query per labelled obligation (ensures per return site, requires per call site, loop invariant init/preserve, modifies frame); distinct_nontrivial counts obligations discharged as unsat",
	}
	ev := map[string]interface{}{
		"property_id": *prop, "tier": *tier, "seed": seed, "level": level, "coverage": cov,
		"assumptions": tb, "wall_s": time.Since(t0).Seconds(), "violations": violations,
	}
	os.MkdirAll(filepath.Join(vdir, "evidence"), 0o755)
	d, _ := json.MarshalIndent(ev, "", " ")
	os.WriteFile(filepath.Join(vdir, "evidence", *prop+".json"), append(d, '\n'), 0o644)

	for _, l := range outLines {
		fmt.Println(l)
	}
	for _, pr := range problems {
		fmt.Println("MACHINERY:", pr)
	}
	fmt.Printf("%s: %d functions under contract, %d obligations, %d discharged, %d violations, %.1fs (load %.1fs, solver %dms)\n", *prop, len(funcsUnder), nObl, nDis, violations, time.Since(t0).Seconds(), loadS, solverMs)
	if violations > 0 {
		os.Exit(1)
	}
	if len(problems) > 0 && os.Getenv("VERIF_STRICT") != "" {
		os.Exit(3)
	}
}

func countPrefix(ls []string, p string) int {
	n := 0
	for _, l := range ls {
		if strings.HasPrefix(l, p) {
			n++
		}
	}
	return n
}

func trimModel(m string) string {
	if len(m) > 6000 {
		return m[:6000] + "\n...(truncated)"
	}
	return m
}

func fatal(format string, a ...interface{}) {
	fmt.Fprintf(os.Stderr, "govc: "+format+"\n", a...)
	os.Exit(2)
}

func explanation(ps *PropSpec) string {
	if ps.Claim != "" {
		return ps.Claim
	}
	if ps.Note != "" {
		return ps.Note
	}
	return "obligations generated from the contracts of this property"
}

// knownBase: some obligation of the same clause (name without its @site / #k
// suffix) is claimed in the lock file or recorded as a finding; a new failing
// site of such a clause is a violation, not an unclaimed obligation.
func knownBase(name string, locked map[string]bool, known []knownFinding, prop string) bool {
	b := clauseBase(name)
	for n := range locked {
		if clauseBase(n) == b {
			return true
		}
	}
	for _, kf := range known {
		if kf.Prop == prop && clauseBase(kf.Obligation) == b {
			return true
		}
	}
	return false
}

var (
	reRetSite  = regexp.MustCompile(`@return\[\d+\]`)
	rePreserve = regexp.MustCompile(`/(preserve(#\d+)?|init)$`)
	reSafeOrd  = regexp.MustCompile(`(safe|guarded)\[([A-Za-z0-9_-]+)#\d+\]`)
	reDupOrd   = regexp.MustCompile(`~\d+$`)
	reReqOrd   = regexp.MustCompile(`/call\[([^\]#]+)#\d+\]/requires\[`)
)

// clauseBase maps an obligation name to the contract clause it instantiates:
// return-site, back-edge, safety-site and duplicate ordinals are dropped (they
// follow the shape of the code); call ordinals of at-call assertions are part
// of the contract text and are kept.
func clauseBase(n string) string {
	n = reDupOrd.ReplaceAllString(n, "")
	n = reRetSite.ReplaceAllString(n, "")
	n = rePreserve.ReplaceAllString(n, "")
	n = reSafeOrd.ReplaceAllString(n, "$1[$2]")
	n = reReqOrd.ReplaceAllString(n, "/call[$1]/requires[") // the ordinal of a callee precondition follows the code
	return n
}

type boundedResult struct {
	ev     map[string]interface{}
	fail   bool
	broken bool
	out    string
}

// runBounded injects the bounded-check test file into the package (go test
// -overlay: nothing is written to the repository) and runs it on the real code.
// The test prints "BOUNDED-CASES n" and, for a counterexample, "BOUNDED-FAIL ...".
func runBounded(repo, vdir, rdir, tier string, b BoundedSpec) boundedResult {
	t0 := time.Now()
	pkgDir := filepath.Join(repo, b.Pkg)
	src := filepath.Join(vdir, "bounded", b.File)
	ov := map[string]map[string]string{"Replace": {filepath.Join(pkgDir, "zz_verif_bounded_test.go"): src}}
	ovj, _ := json.Marshal(ov)
	ovFile := filepath.Join(rdir, sanitizeFile(b.Name)+".bounded.overlay.json")
	os.WriteFile(ovFile, ovj, 0o644)
	ctx, cancel := context.WithTimeout(context.Background(), 30*time.Minute)
	defer cancel()
	cmd := exec.CommandContext(ctx, "go", "test", "-overlay", ovFile, "-vet=off", "-timeout", "25m", "-count=1", "-run", "^"+b.Run+"$", "-v", ".")
	cmd.Dir = pkgDir
	scale := "1"
	if tier == "thorough" && b.ThoroughX != "" {
		scale = b.ThoroughX
	}
	cmd.Env = append(os.Environ(), "GOFLAGS=-mod=mod", "GOPROXY=off", "GOSUMDB=off", "GOTOOLCHAIN=local", "VERIF_BOUND_SCALE="+scale)
	var ob bytes.Buffer
	cmd.Stdout = &ob
	cmd.Stderr = &ob
	err := cmd.Run()
	out := ob.String()
	cases := 0
	for _, l := range strings.Split(out, "\n") {
		l = strings.TrimSpace(l)
		if strings.HasPrefix(l, "BOUNDED-CASES ") {
			fmt.Sscanf(strings.TrimPrefix(l, "BOUNDED-CASES "), "%d", &cases)
		}
	}
	fail := strings.Contains(out, "BOUNDED-FAIL")
	broken := !fail && (err != nil || cases == 0)
	status := "held on every case"
	if fail {
		status = "counterexample"
	} else if broken {
		status = "did not run"
	}
	if len(out) > 6000 {
		out = out[:3000] + "\n...\n" + out[len(out)-3000:]
	}
	return boundedResult{
		ev: map[string]interface{}{"name": b.Name, "kind": "bounded (not a proof)", "bound": b.Bound, "scale": scale, "cases": cases, "status": status,
			"wall_s": time.Since(t0).Seconds(), "test": filepath.Join("bounded", b.File) + ":" + b.Run},
		fail: fail, broken: broken, out: out,
	}
}
