package main

import (
	"flag"
	"fmt"
	"os"
	"path/filepath"
	"runtime"
	"sort"
	"strings"
	"sync"
	"time"
)

func main() {
	if len(os.Args) < 2 {
		fmt.Fprintln(os.Stderr, "usage: govc <verify|funcs|check> ...")
		os.Exit(2)
	}
	switch os.Args[1] {
	case "funcs":
		cmdFuncs(os.Args[2:])
	case "verify":
		cmdVerify(os.Args[2:])
	case "check":
		cmdCheck(os.Args[2:])
	case "selftest":
		cmdSelftest(os.Args[2:])
	default:
		fmt.Fprintln(os.Stderr, "unknown command", os.Args[1])
		os.Exit(2)
	}
}

func verifDir() string {
	if d := os.Getenv("VERIF_DIR"); d != "" {
		return d
	}
	exe, _ := os.Executable()
	return filepath.Dir(filepath.Dir(exe))
}

func repoDirDefault() string {
	if d := os.Getenv("VERIF_REPO"); d != "" {
		return d
	}
	return "/repo"
}

func cmdFuncs(args []string) {
	fs := flag.NewFlagSet("funcs", flag.ExitOnError)
	repo := fs.String("repo", repoDirDefault(), "repository")
	fs.Parse(args)
	p, err := loadProg(*repo, fs.Args())
	if err != nil {
		fmt.Fprintln(os.Stderr, err)
		os.Exit(2)
	}
	fns := p.allFuncs()
	for _, k := range sortedFuncKeys(fns) {
		if inRepo(fns[k]) {
			fmt.Println(k)
		}
	}
}

// runObligations discharges all obligations of the given results in parallel.
func runObligations(results []*FuncResult, dir string, timeoutS, seed int, all bool) {
	type job struct {
		vc *VC
		o  *Obligation
	}
	var jobs []job
	for _, r := range results {
		if r.VC == nil {
			continue
		}
		for _, o := range r.VC.obls {
			jobs = append(jobs, job{r.VC, o})
		}
	}
	sem := make(chan struct{}, 6)
	var wg sync.WaitGroup
	for _, j := range jobs {
		j := j
		wg.Add(1)
		sem <- struct{}{}
		go func() {
			defer wg.Done()
			defer func() { <-sem }()
			if j.o.Result != nil {
				return // decided without a solver (syntactic scan)
			}
			q := j.vc.query(j.o)
			if j.o.Cover {
				t0 := time.Now()
				stt, out := runLight(q, dir, 2, false)
				j.o.Result = &SolverResult{Status: stt, Solver: "z3-new(light)", Millis: time.Since(t0).Milliseconds(), Output: firstLine(out)}
				return
			}
			r := runQuery(q, dir, timeoutS, seed, all)
			if r.Status != "unsat" {
				// candidate counterexample from the quantifier-free theory
				stt, out := runLight(q, dir, 5, true)
				r.Output += "light-theory: " + stt + "\n"
				if stt == "sat" {
					r.Model = out
				}
			}
			j.o.Result = &r
		}()
	}
	wg.Wait()
	// an obligation that discharged on the pinned tree and ran out of time now may
	// be the victim of a loaded machine (the limit is wall-clock): it gets one
	// more, sequential, attempt with a longer limit before it counts as failed
	if retryFilter != nil {
		// (a loaded machine gets more second attempts; on a quiet one a few are
		// still made, with another solver seed: proofs can be seed-sensitive)
		maxRetry := 3
		if machineLoaded() {
			maxRetry = 6
		}
		n := 0
		for _, j := range jobs {
			if j.o.Cover || j.o.Result == nil || j.o.Result.Status != "timeout" || !retryFilter(j.o.Name) {
				continue
			}
			if n++; n > maxRetry {
				break
			}
			q := j.vc.query(j.o)
			r := runQuery(q, dir, timeoutS*3, seed+17, false)
			if r.Status == "unsat" {
				r.Output += "(discharged at the second attempt, limit x3)\n"
				j.o.Result = &r
			}
		}
	}
}

// machineLoaded: the one-minute load average exceeds three quarters of the cores,
// i.e. the wall-clock limits of this run were competing with other work.
func machineLoaded() bool {
	d, err := os.ReadFile("/proc/loadavg")
	if err != nil {
		return true
	}
	var l1 float64
	fmt.Sscanf(string(d), "%f", &l1)
	return l1 > 0.75*float64(runtime.NumCPU())
}

// retryFilter selects the obligations that get a second attempt after a timeout.
var retryFilter func(name string) bool

func cmdVerify(args []string) {
	fs := flag.NewFlagSet("verify", flag.ExitOnError)
	repo := fs.String("repo", repoDirDefault(), "repository")
	fnFilter := fs.String("fn", "", "comma separated function keys (default: every contract in the loaded packages)")
	out := fs.String("out", "/tmp/govc-out", "directory for smt files")
	timeout := fs.Int("t", 10, "solver timeout (s)")
	verbose := fs.Bool("v", false, "verbose")
	fs.Parse(args)
	t0 := time.Now()
	p, err := loadProg(*repo, fs.Args())
	if err != nil {
		fmt.Fprintln(os.Stderr, err)
		os.Exit(2)
	}
	if err := p.loadContracts(filepath.Join(verifDir(), "contracts", "extern")); err != nil {
		fmt.Fprintln(os.Stderr, "contract error:", err)
		os.Exit(2)
	}
	fmt.Fprintf(os.Stderr, "loaded in %.1fs, %d contracts\n", time.Since(t0).Seconds(), len(p.contracts))
	fns := p.allFuncs()
	var keys []string
	if *fnFilter != "" {
		keys = strings.Split(*fnFilter, ",")
	} else {
		for k, c := range p.contracts {
			if !c.Extern {
				keys = append(keys, k)
			}
		}
	}
	sort.Strings(keys)
	var results []*FuncResult
	for _, k := range keys {
		ct := p.contracts[k]
		fn := fns[baseKey(k)]
		if ct == nil {
			fmt.Printf("NO-CONTRACT %s\n", k)
			continue
		}
		if fn == nil {
			fmt.Printf("NO-FUNCTION %s (contract at %s:%d)\n", k, ct.File, ct.Line)
			continue
		}
		r := p.verifyFunc(fn, ct)
		results = append(results, r)
	}
	runObligations(results, *out, *timeout, 0, false)
	bad := 0
	for _, r := range results {
		if r.Err != "" {
			fmt.Printf("REJECTED %s: %s\n", r.Key, r.Err)
			bad++
			continue
		}
		for _, e := range r.VC.errs {
			fmt.Printf("CONTRACT-ERROR %s: %s\n", r.Key, e)
			bad++
		}
		for _, o := range r.VC.obls {
			st := o.Result.Status
			okk := st == "unsat"
			if o.Cover {
				okk = st == "sat" || st == "unknown" || st == "timeout"
				if st == "unsat" {
					st = "VACUOUS"
				} else {
					st = "reachable(" + st + ")"
				}
			}
			if !okk {
				bad++
			}
			if !okk || *verbose {
				fmt.Printf("%-8s %-60s %s %dms  [%s]\n", st, o.Name, o.Result.Solver, o.Result.Millis, o.Pos)
				if !okk && o.Clause != "" {
					fmt.Printf("         clause: %s\n", o.Clause)
				}
			}
		}
		if *verbose {
			for _, t := range describeTrusted(r.VC) {
				fmt.Printf("  trusted: %s\n", t)
			}
		}
	}
	n := 0
	for _, r := range results {
		if r.VC != nil {
			n += len(r.VC.obls)
		}
	}
	fmt.Printf("%d functions, %d obligations, %d problems, %.1fs\n", len(results), n, bad, time.Since(t0).Seconds())
	if bad > 0 {
		os.Exit(1)
	}
}

// cmdSelftest verifies the engine's own test module: clauses whose label starts
// with "bad" must not be proved, every other obligation must be.
func cmdSelftest(args []string) {
	fs := flag.NewFlagSet("selftest", flag.ExitOnError)
	dir := fs.String("repo", filepath.Join(verifDir(), "govc", "testdata", "mod"), "test module")
	only := fs.String("fn", "", "only these functions")
	verbose := fs.Bool("v", false, "verbose")
	fs.Parse(args)
	p, err := loadProg(*dir, []string{"./..."})
	if err != nil {
		fmt.Fprintln(os.Stderr, err)
		os.Exit(2)
	}
	if err := p.loadContracts("/nonexistent"); err != nil {
		fmt.Fprintln(os.Stderr, "contract error:", err)
		os.Exit(2)
	}
	fns := p.allFuncs()
	var keys []string
	for k, c := range p.contracts {
		if !c.Extern && (*only == "" || strings.Contains(","+*only+",", ","+k+",")) {
			keys = append(keys, k)
		}
	}
	sort.Strings(keys)
	var results []*FuncResult
	bad := 0
	for _, k := range keys {
		fn := fns[baseKey(k)]
		if fn == nil {
			fmt.Printf("NO-FUNCTION %s\n", k)
			bad++
			continue
		}
		results = append(results, p.verifyFunc(fn, p.contracts[k]))
	}
	out, _ := os.MkdirTemp("", "govc-selftest")
	defer os.RemoveAll(out)
	if *verbose {
		out = "/tmp/govc-selftest"
	}
	runObligations(results, out, 8, 0, false)
	n := 0
	for _, r := range results {
		if r.Err != "" {
			fmt.Printf("REJECTED %s: %s\n", r.Key, r.Err)
			bad++
			continue
		}
		for _, e := range r.VC.errs {
			fmt.Printf("CONTRACT-ERROR %s: %s\n", r.Key, e)
			bad++
		}
		badFailed := map[string]bool{}
		for _, o := range r.VC.obls {
			if (strings.Contains(o.Name, "[bad") || strings.Contains(o.Name, "#bad/store[")) && o.Result.Status != "unsat" {
				badFailed[strings.SplitN(o.Name, "@", 2)[0]] = true
			}
		}
		for _, o := range r.VC.obls {
			n++
			st := o.Result.Status
			expectFail := strings.Contains(o.Name, "[bad") || strings.Contains(o.Name, "#bad/store[")
			ok := st == "unsat"
			if o.Cover {
				ok = st != "unsat"
			} else if expectFail {
				ok = badFailed[strings.SplitN(o.Name, "@", 2)[0]]
			}
			if !ok || *verbose {
				tag := "ok  "
				if !ok {
					tag = "FAIL"
					bad++
				}
				fmt.Printf("%s %-8s %-60s %s %dms [%s] %s\n", tag, st, o.Name, o.Result.Solver, o.Result.Millis, o.Pos, strings.ReplaceAll(o.Result.Output, "\n", " "))
			}
		}
	}
	fmt.Printf("selftest: %d functions, %d obligations, %d mismatches\n", len(results), n, bad)
	if bad > 0 {
		os.Exit(1)
	}
}
