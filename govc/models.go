package main

// Builtins and trusted models of standard-library functions (DESIGN §3.12).

import (
	"fmt"
	"go/types"
	"os"
	"strings"

	"golang.org/x/tools/go/ssa"
)

type modelFn func(fr *Frame, st *State, args []Val, rt types.Type) Val

var models map[string]modelFn
var pureModels = map[string]bool{}

func init() {
	models = map[string]modelFn{}
	pure := func(name string, f modelFn) {
		models[name] = f
		pureModels[name] = true
	}
	b := func(t Term) Val { return Val{T: tyBool, S: []Term{t}} }
	// --- time -------------------------------------------------------------
	models["time.Now"] = func(fr *Frame, st *State, args []Val, rt types.Type) Val {
		vc := fr.vc
		vc.ensureKey("g.clock", "Int")
		o := vc.get(st, "g.clock")
		n := vc.fresh("now", "Int")
		vc.assume(st, tLe(o, n))
		vc.set(st, "g.clock", n)
		return Val{T: rt, S: []Term{sx("mktime", n)}}
	}
	models["time.Until"] = func(fr *Frame, st *State, args []Val, rt types.Type) Val {
		vc := fr.vc
		vc.ensureKey("g.clock", "Int")
		o := vc.get(st, "g.clock")
		n := vc.fresh("now", "Int")
		vc.assume(st, tLe(o, n))
		vc.set(st, "g.clock", n)
		return Val{T: rt, S: []Term{tSub(sx("instant", args[0].S[0]), n)}}
	}
	models["time.Since"] = func(fr *Frame, st *State, args []Val, rt types.Type) Val {
		vc := fr.vc
		vc.ensureKey("g.clock", "Int")
		o := vc.get(st, "g.clock")
		n := vc.fresh("now", "Int")
		vc.assume(st, tLe(o, n))
		vc.set(st, "g.clock", n)
		return Val{T: rt, S: []Term{tSub(n, sx("instant", args[0].S[0]))}}
	}
	pure("(time.Time).Add", func(fr *Frame, st *State, args []Val, rt types.Type) Val {
		return Val{T: rt, S: []Term{sx("mktime", sx("+", sx("instant", args[0].S[0]), args[1].S[0]))}}
	})
	pure("(time.Time).Sub", func(fr *Frame, st *State, args []Val, rt types.Type) Val {
		return Val{T: rt, S: []Term{sx("-", sx("instant", args[0].S[0]), sx("instant", args[1].S[0]))}}
	})
	pure("(time.Time).Before", func(fr *Frame, st *State, args []Val, rt types.Type) Val {
		return b(tLt(sx("instant", args[0].S[0]), sx("instant", args[1].S[0])))
	})
	// metav1.Time embeds time.Time (one Tim slot); Before is nil-safe
	pure("(*v1.Time).Before", func(fr *Frame, st *State, args []Val, rt types.Type) Val {
		h := fr.vc.get(st, fr.vc.heapKey(KT))
		t, u := args[0], args[1]
		return b(tAnd(tNot(tEq(t.S[0], "0")), tNot(tEq(u.S[0], "0")),
			tLt(sx("instant", tSel2(h, t.S[0], t.S[1])), sx("instant", tSel2(h, u.S[0], u.S[1])))))
	})
	pure("(time.Time).After", func(fr *Frame, st *State, args []Val, rt types.Type) Val {
		return b(tLt(sx("instant", args[1].S[0]), sx("instant", args[0].S[0])))
	})
	pure("(time.Time).Equal", func(fr *Frame, st *State, args []Val, rt types.Type) Val {
		return b(tEq(sx("instant", args[0].S[0]), sx("instant", args[1].S[0])))
	})
	pure("(time.Time).IsZero", func(fr *Frame, st *State, args []Val, rt types.Type) Val {
		return b(tEq(sx("instant", args[0].S[0]), sx("instant", "tzero")))
	})
	// --- sync -------------------------------------------------------------
	lock := func(want Term, set Term, what string) modelFn {
		return func(fr *Frame, st *State, args []Val, rt types.Type) Val {
			vc := fr.vc
			p := args[0]
			h := vc.get(st, vc.heapKey(KM))
			held := tSel2(h, p.S[0], p.S[1])
			if fr.top && fr.contract != nil && !vc.quiet {
				fr.callOrd["mutex:"+what]++
				name := fmt.Sprintf("%s/call[%s#%d]/requires[mutex-state]", vc.fnKey, what, fr.callOrd["mutex:"+what])
				vc.oblige(st, name, "requires", tEq(held, want), "mutex must "+map[Term]string{tFalse: "not be held", tTrue: "be held"}[want]+" before "+what)
			}
			vc.assume(st, tEq(held, want))
			vc.set(st, vc.heapKey(KM), tSto2(h, p.S[0], p.S[1], set))
			return Val{T: rt}
		}
	}
	models["(*sync.Mutex).Lock"] = lock(tFalse, tTrue, "Lock")
	models["(*sync.Mutex).Unlock"] = lock(tTrue, tFalse, "Unlock")
	models["(*sync.RWMutex).Lock"] = lock(tFalse, tTrue, "Lock")
	models["(*sync.RWMutex).Unlock"] = lock(tTrue, tFalse, "Unlock")
	models["(*sync.RWMutex).RLock"] = lock(tFalse, tTrue, "RLock")
	models["(*sync.RWMutex).RUnlock"] = lock(tTrue, tFalse, "RUnlock")
	// --- strings ----------------------------------------------------------
	pure("strings.HasPrefix", func(fr *Frame, st *State, args []Val, rt types.Type) Val {
		return b(sx("sprefix", args[0].S[0], args[1].S[0]))
	})
	pure("strings.HasSuffix", func(fr *Frame, st *State, args []Val, rt types.Type) Val {
		return b(sx("ssuffix", args[0].S[0], args[1].S[0]))
	})
	pure("strings.Contains", func(fr *Frame, st *State, args []Val, rt types.Type) Val {
		return b(sx("scontains", args[0].S[0], args[1].S[0]))
	})
	pure("strings.ToLower", func(fr *Frame, st *State, args []Val, rt types.Type) Val {
		return Val{T: rt, S: []Term{sx("slower", args[0].S[0])}}
	})
	ufStr := func(name string, n int) modelFn {
		return func(fr *Frame, st *State, args []Val, rt types.Type) Val {
			sig := "("
			var ts []Term
			for i := 0; i < n; i++ {
				sig += "Str "
				ts = append(ts, args[i].S[0])
			}
			fr.vc.declareUF(name, sig+") Str")
			return Val{T: rt, S: []Term{sx(name, ts...)}}
		}
	}
	pure("strings.TrimSpace", ufStr("strimspace", 1))
	pure("strings.ToUpper", ufStr("supper", 1))
	pure("strings.TrimPrefix", func(fr *Frame, st *State, args []Val, rt types.Type) Val {
		s, p := args[0].S[0], args[1].S[0]
		return Val{T: rt, S: []Term{tIte(sx("sprefix", s, p), sx("ssub", s, sx("slen", p), sx("slen", s)), s)}}
	})
	pure("strings.TrimSuffix", func(fr *Frame, st *State, args []Val, rt types.Type) Val {
		s, p := args[0].S[0], args[1].S[0]
		return Val{T: rt, S: []Term{tIte(sx("ssuffix", s, p), sx("ssub", s, "0", sx("-", sx("slen", s), sx("slen", p))), s)}}
	})
	pure("strings.TrimRight", ufStr("strimright", 2))
	pure("strings.TrimLeft", ufStr("strimleft", 2))
	pure("strings.Trim", ufStr("strim", 2))
	pure("strings.ReplaceAll", ufStr("sreplaceall", 3))
	pure("strings.EqualFold", func(fr *Frame, st *State, args []Val, rt types.Type) Val {
		fr.vc.declareUF("sfold", "(Str) Str")
		return b(tEq(sx("sfold", args[0].S[0]), sx("sfold", args[1].S[0])))
	})
	pure("strings.Index", func(fr *Frame, st *State, args []Val, rt types.Type) Val {
		vc := fr.vc
		vc.declareUF("sindex", "(Str Str) Int")
		r := sx("sindex", args[0].S[0], args[1].S[0])
		vc.assume(st, tAnd(tLe("(- 1)", r), tLe(r, sx("slen", args[0].S[0])), tEq(tLe("0", r), sx("scontains", args[0].S[0], args[1].S[0]))))
		return Val{T: rt, S: []Term{r}}
	})
	// --- errors / fmt -----------------------------------------------------
	newErr := func(fr *Frame, st *State, args []Val, rt types.Type) Val {
		vc := fr.vc
		r := vc.fresh("err", "Int")
		tid := vc.fresh("errtid", "Int")
		vc.assume(st, tAnd(tLt("0", r), tLt("0", tid)))
		return Val{T: rt, S: []Term{tid, r, "0"}}
	}
	models["fmt.Errorf"] = newErr
	pureModels["fmt.Errorf"] = true
	models["errors.New"] = newErr
	pureModels["errors.New"] = true
	models["fmt.Sprintf"] = func(fr *Frame, st *State, args []Val, rt types.Type) Val {
		vc := fr.vc
		// a constant format made of literal text and plain %s / %v / %d verbs: the
		// result is the concatenation of the pieces; an operand whose dynamic type
		// is string stands for itself, any other operand for an unknown string
		if len(args) == 2 && len(args[1].S) == 4 && vc.inQuant == 0 {
			for lit, name := range vc.strLits {
				if name != args[0].S[0] {
					continue
				}
				var pieces []string // literal pieces; "\x00" marks an operand
				cur := ""
				ok := true
				nverbs := 0
				for i := 0; i < len(lit) && ok; i++ {
					if lit[i] != '%' {
						cur += string(lit[i])
						continue
					}
					if i+1 >= len(lit) {
						ok = false
						break
					}
					switch lit[i+1] {
					case '%':
						cur += "%"
					case 's', 'v', 'd':
						pieces = append(pieces, cur, "\x00")
						cur = ""
						nverbs++
					default:
						ok = false
					}
					i++
				}
				pieces = append(pieces, cur)
				if !ok || nverbs == 0 || nverbs > 6 {
					break
				}
				sl := args[1]
				hI := vc.get(st, vc.heapKey(KI))
				hS := vc.get(st, vc.heapKey(KS))
				strID := tInt(int64(vc.p.typeID(types.Typ[types.String])))
				var res Term
				k := 0
				for _, pc := range pieces {
					var t Term
					if pc == "\x00" {
						base := vc.elemOff(sl.S[1], tInt(int64(k)), 3)
						tid := tSel2(hI, sl.S[0], base)
						ref := tSel2(hI, sl.S[0], tAdd(base, "1"))
						off := tSel2(hI, sl.S[0], tAdd(base, "2"))
						other := vc.fresh("fmtarg", "Str")
						t = vc.define("fmtop", "Str", tIte(tEq(tid, strID), tSel2(hS, ref, off), other))
						k++
					} else {
						if pc == "" {
							continue
						}
						t = vc.strLit(pc)
					}
					if res == "" {
						res = t
					} else {
						res = sx("sconcat", res, t)
					}
				}
				if res == "" {
					res = "sempty"
				}
				// the operand count must match the verbs, else the text is unknown
				r := vc.fresh("sprintf", "Str")
				vc.assume(st, tImp(tEq(sl.S[2], tInt(int64(nverbs))), tEq(r, res)))
				return Val{T: rt, S: []Term{r}}
			}
		}
		r := vc.fresh("sprintf", "Str")
		// a constant format contributes its literal bytes to the result
		for lit, name := range vc.strLits {
			if name == args[0].S[0] {
				n := 0
				for i := 0; i < len(lit); i++ {
					if lit[i] == '%' && i+1 < len(lit) {
						if lit[i+1] == '%' {
							n++
						}
						i++
						for i < len(lit) && strings.ContainsRune("+-# 0123456789.[]*", rune(lit[i])) {
							i++
						}
						continue
					}
					n++
				}
				vc.assume(st, tLe(tInt(int64(n)), sx("slen", r)))
			}
		}
		return Val{T: rt, S: []Term{r}}
	}
	pureModels["fmt.Sprintf"] = true
	models["fmt.Sprint"] = models["fmt.Sprintf"]
	pureModels["fmt.Sprint"] = true
	// --- strconv ------------------------------------------------------------
	pure("strconv.Itoa", func(fr *Frame, st *State, args []Val, rt types.Type) Val {
		fr.vc.declareUF("itoa", "(Int) Str")
		return Val{T: rt, S: []Term{sx("itoa", args[0].S[0])}}
	})
	// intstr.IntOrString{Type, IntVal, StrVal}.IntValue(): the integer for Type==Int,
	// else the string parsed (0 when it is not a number); a function of the content
	pure("(*intstr.IntOrString).IntValue", func(fr *Frame, st *State, args []Val, rt types.Type) Val {
		vc := fr.vc
		vc.declareUF("atoi", "(Str) Int")
		vc.declareUF("atoi_ok", "(Str) Bool")
		hI := vc.get(st, vc.heapKey(KI))
		hS := vc.get(st, vc.heapKey(KS))
		r, o := args[0].S[0], args[0].S[1]
		typ := tSel2(hI, r, o)
		iv := tSel2(hI, r, tAdd(o, "1"))
		sv := tSel2(hS, r, tAdd(o, "2"))
		return Val{T: rt, S: []Term{tIte(tEq(typ, "0"), iv, tIte(sx("atoi_ok", sv), sx("atoi", sv), "0"))}}
	})
	pure("strconv.Atoi", func(fr *Frame, st *State, args []Val, rt types.Type) Val {
		vc := fr.vc
		vc.declareUF("atoi", "(Str) Int")
		vc.declareUF("atoi_ok", "(Str) Bool")
		s := args[0].S[0]
		okT := sx("atoi_ok", s)
		n := tIte(okT, sx("atoi", s), "0")
		vc.assume(st, rangeOf(tyInt, sx("atoi", s)))
		e := vc.fresh("atoierr", "Int")
		tid := vc.fresh("atoierrtid", "Int")
		vc.assume(st, tAnd(tLt("0", e), tLt("0", tid)))
		return Val{T: rt, S: []Term{n, tIte(okT, "0", tid), tIte(okT, "0", e), "0"}}
	})
}

// builtin implements the Go builtins.
func (fr *Frame) builtin(st *State, b *ssa.Builtin, c *ssa.CallCommon, args []Val, site ssa.Instruction) Val {
	vc := fr.vc
	lay := vc.p.lay
	switch b.Name() {
	case "len":
		v := args[0]
		switch u := types.Unalias(v.T).Underlying().(type) {
		case *types.Slice:
			return intVal(v.S[2])
		case *types.Basic:
			return intVal(sx("slen", v.S[0]))
		case *types.Map:
			vc.assume(st, vc.mapLenFacts(st, v.S[0], u.Key()))
			return intVal(tSel(vc.get(st, vc.mapLenKey()), v.S[0]))
		case *types.Array:
			return intVal(tInt(u.Len()))
		case *types.Pointer:
			if a, ok := u.Elem().Underlying().(*types.Array); ok {
				return intVal(tInt(a.Len()))
			}
		}
		vc.reject("len of %v", v.T)
	case "cap":
		v := args[0]
		if _, ok := types.Unalias(v.T).Underlying().(*types.Slice); ok {
			return intVal(v.S[3])
		}
		vc.reject("cap of %v", v.T)
	case "append":
		s := args[0]
		s.T = c.Args[0].Type()
		slt := types.Unalias(s.T).Underlying().(*types.Slice)
		es := lay.size(slt.Elem())
		ek := lay.of(slt.Elem()).Kinds
		add := args[1]
		var addLen Term
		isStr := false
		if _, ok := types.Unalias(add.T).Underlying().(*types.Basic); ok {
			isStr = true
			addLen = sx("slen", add.S[0])
		} else {
			addLen = add.S[2]
		}
		newLen := vc.define("applen", "Int", tAdd(s.S[2], addLen))
		fits := vc.define("appfits", "Bool", tLe(newLen, s.S[3]))
		// case A: in place; case B: fresh array with copied prefix
		r := vc.newObject(st, "append", s.T, nil)
		ncap := vc.fresh("cap.append", "Int")
		vc.assume(st, tLe(newLen, ncap))
		resRef := tIte(fits, s.S[0], r)
		// named: an ite inside a quantifier pattern is not a legal trigger
		resOff := vc.define("appoff", "Int", tIte(fits, s.S[1], "0"))
		resCap := tIte(fits, s.S[3], ncap)
		res := Val{T: s.T, S: []Term{resRef, resOff, newLen, resCap}}
		tgt := vc.define("apptgt", "Int", resRef)
		lo := vc.elemOff(resOff, s.S[2], es)
		hi := vc.elemOff(resOff, newLen, es)
		seen := map[Kind]bool{}
		for _, k := range ek {
			if seen[k] {
				continue
			}
			seen[k] = true
			key := vc.heapKey(k)
			h := vc.get(st, key)
			// the target object gets a new content; every other object is untouched
			// (functional update: no quantifier over objects)
			obj := vc.fresh("obj.append."+string(k), "(Array Int "+k.Sort()+")")
			oldObj := tSel(h, tgt)
			// in place: everything outside the appended window is unchanged
			vc.assume(st, tImp(fits, fmt.Sprintf("(forall ((o!q Int)) (! (=> (or (< o!q %s) (>= o!q %s)) (= (select %s o!q) (select %s o!q))) :pattern ((select %s o!q))))", lo, hi, obj, oldObj, obj)))
			// reallocated: old elements copied element-wise
			for j, kk := range ek {
				if kk != k {
					continue
				}
				dst := tSel(obj, tAdd(vc.elemOff("0", "i!q", es), tInt(int64(j))))
				src := tSel2(h, s.S[0], tAdd(vc.elemOff(s.S[1], "i!q", es), tInt(int64(j))))
				vc.assume(st, tImp(tNot(fits), fmt.Sprintf("(forall ((i!q Int)) (! (=> (and (<= 0 i!q) (< i!q %s)) (= %s %s)) :pattern (%s) :pattern (%s)))", s.S[2], dst, src, dst, src)))
			}
			// appended elements
			if isStr {
				vc.assume(st, fmt.Sprintf("(forall ((i!q Int)) (! (=> (and (<= 0 i!q) (< i!q %s)) (= (select %s %s) (sbyte %s i!q))) :pattern ((sbyte %s i!q))))", addLen, obj, vc.elemOff(resOff, tAdd(s.S[2], "i!q"), es), add.S[0], add.S[0]))
			} else if cst, ok := constLen(addLen); ok && cst <= 4 {
				for i := 0; i < cst; i++ {
					for j, kk := range ek {
						if kk != k {
							continue
						}
						src := tSel2(h, add.S[0], tAdd(vc.elemOff(add.S[1], tInt(int64(i)), es), tInt(int64(j))))
						vc.assume(st, tEq(tSel(obj, tAdd(vc.elemOff(resOff, tAdd(s.S[2], tInt(int64(i))), es), tInt(int64(j)))), src))
					}
				}
			} else {
				for j, kk := range ek {
					if kk != k {
						continue
					}
					dst := tSel(obj, tAdd(vc.elemOff(resOff, tAdd(s.S[2], "i!q"), es), tInt(int64(j))))
					src := tSel2(h, add.S[0], tAdd(vc.elemOff(add.S[1], "i!q", es), tInt(int64(j))))
					vc.assume(st, fmt.Sprintf("(forall ((i!q Int)) (! (=> (and (<= 0 i!q) (< i!q %s)) (= %s %s)) :pattern (%s) :pattern (%s)))", addLen, dst, src, dst, src))
				}
			}
			vc.set(st, key, tSto(h, tgt, obj))
		}
		return res
	case "delete":
		m := args[0]
		mt := types.Unalias(c.Args[0].Type()).Underlying().(*types.Map)
		k := args[1]
		k.T = mt.Key()
		vc.mapDelete(st, m.S[0], k)
		return Val{}
	case "panic":
		st.pc = tFalse
		return Val{}
	case "print", "println":
		return Val{}
	case "min", "max":
		op := map[string]string{"min": "imin", "max": "imax"}[b.Name()]
		if lay.of(args[0].T).Kinds[0] != KI {
			vc.reject("%s on non-integers", b.Name())
		}
		t := args[0].S[0]
		for _, a := range args[1:] {
			t = sx(op, t, a.S[0])
		}
		return Val{T: args[0].T, S: []Term{t}}
	case "ssa:wrapnilchk":
		return args[0]
	case "ssa:deferstack":
		return vc.zeroVal(site.(ssa.Value).Type())
	case "copy":
		// copy(dst, src): dst object havocked
		vc.havocTargets(st, []modTarget{{kind: "obj", ref: args[0].S[0]}})
		n := vc.fresh("copied", "Int")
		vc.assume(st, tAnd(tLe("0", n), tLe(n, args[0].S[2])))
		return intVal(n)
	case "clear":
		vc.havocAll(st)
		return Val{}
	}
	vc.reject("builtin %s", b.Name())
	return Val{}
}

func constLen(t Term) (int, bool) {
	n := 0
	if t == "" {
		return 0, false
	}
	for _, c := range t {
		if c < '0' || c > '9' {
			return 0, false
		}
		n = n*10 + int(c-'0')
		if n > 1000 {
			return 0, false
		}
	}
	return n, true
}

// sort.Slice(x, less): the backing array of x is permuted (a bijection on
// [0,len)) and afterwards no later element is "less" than an earlier one; the
// comparator is the caller's closure, expanded from its own SSA under the
// quantifier (loop-free closures only).
func init() {
	sortModel := func(stable bool) modelFn {
		return func(fr *Frame, st *State, args []Val, rt types.Type) Val {
			vc := fr.vc
			ci := vc.closures[args[1].S[0]]
			if ci == nil || len(findLoops(ci.fn)) > 0 {
				vc.notes["sort.Slice with an unresolved comparator: treated as unknown code"] = true
				vc.havocHeap(st)
				return Val{T: rt}
			}
			// the slice value travels boxed inside the interface argument
			var slt *types.Slice
			for t, id := range vc.p.typeIDs {
				_ = t
				_ = id
			}
			sliceT := vc.boxedType[args[0].S[1]]
			if sliceT == nil {
				vc.notes["sort.Slice on a value of unknown static type: treated as unknown code"] = true
				vc.havocHeap(st)
				return Val{T: rt}
			}
			slt = sliceT.Underlying().(*types.Slice)
			s := vc.loadAt(st, args[0].S[1], args[0].S[2], sliceT)
			for i := range s.S {
				s.S[i] = vc.define("sorted", "Int", s.S[i])
			}
			vc.assume(st, vc.wellTyped(st, s))
			es := vc.p.lay.size(slt.Elem())
			vc.n++
			perm := fmt.Sprintf("perm!%d", vc.n)
			inv := fmt.Sprintf("pinv!%d", vc.n)
			vc.decls = append(vc.decls, fmt.Sprintf("(declare-fun %s (Int) Int)", perm), fmt.Sprintf("(declare-fun %s (Int) Int)", inv))
			old := st.clone()
			vc.havocTargets(st, []modTarget{{kind: "obj", ref: s.S[0]}})
			ln := s.S[2]
			// perm is a bijection of the integers that maps [0,len) onto itself
			// (unguarded inverse laws: they merge terms instead of creating new ones)
			vc.assume(st, fmt.Sprintf("(forall ((i!q Int)) (! (and (= (%s (%s i!q)) i!q) (= (and (<= 0 i!q) (< i!q %s)) (and (<= 0 (%s i!q)) (< (%s i!q) %s)))) :pattern ((%s i!q))))", inv, perm, ln, perm, perm, ln, perm))
			vc.assume(st, fmt.Sprintf("(forall ((i!q Int)) (! (and (= (%s (%s i!q)) i!q) (= (and (<= 0 i!q) (< i!q %s)) (and (<= 0 (%s i!q)) (< (%s i!q) %s)))) :pattern ((%s i!q))))", perm, inv, ln, inv, inv, ln, inv))
			for j, k := range vc.p.lay.of(slt.Elem()).Kinds {
				// named: the havocked heap term contains an ite, which is not a legal trigger
				hn := vc.define("hsorted", "(Array Int (Array Int "+k.Sort()+"))", vc.get(st, vc.heapKey(k)))
				ho := vc.get(old, vc.heapKey(k))
				dst := tSel2(hn, s.S[0], tAdd(vc.elemOff(s.S[1], "i!q", es), tInt(int64(j))))
				src := tSel2(ho, s.S[0], tAdd(vc.elemOff(s.S[1], sx(perm, "i!q"), es), tInt(int64(j))))
				vc.assume(st, fmt.Sprintf("(forall ((i!q Int)) (! (=> (and (<= 0 i!q) (< i!q %s)) (= %s %s)) :pattern (%s)))", ln, dst, src, dst))
				// and the other way round: every old element sits at inv(i)
				srcO := tSel2(ho, s.S[0], tAdd(vc.elemOff(s.S[1], "i!q", es), tInt(int64(j))))
				dstO := tSel2(hn, s.S[0], tAdd(vc.elemOff(s.S[1], sx(inv, "i!q"), es), tInt(int64(j))))
				vc.assume(st, fmt.Sprintf("(forall ((i!q Int)) (! (=> (and (<= 0 i!q) (< i!q %s)) (= %s %s)) :pattern (%s)))", ln, srcO, dstO, srcO))
				// everything of the array outside the slice window is unchanged
				lo := vc.elemOff(s.S[1], "0", es)
				hi := vc.elemOff(s.S[1], ln, es)
				vc.assume(st, fmt.Sprintf("(forall ((o!q Int)) (! (=> (or (< o!q %s) (>= o!q %s)) (= (select (select %s %s) o!q) (select (select %s %s) o!q))) :pattern ((select (select %s %s) o!q))))", lo, hi, hn, s.S[0], ho, s.S[0], hn, s.S[0]))
			}
			// ordered: for i < j, not less(j, i)
			vc.n++
			bi, bj := fmt.Sprintf("q!%d_i", vc.n), fmt.Sprintf("q!%d_j", vc.n)
			vc.inQuant++
			saveQuiet := vc.quiet
			vc.quiet = true
			scratch := st.clone()
			scratch.pc = tTrue
			res, ok := func() (r Val, ok bool) {
				defer func() {
					if rec := recover(); rec != nil {
						if u, isU := rec.(unsupported); isU {
							if os.Getenv("GOVC_DEBUG") != "" {
								fmt.Fprintf(os.Stderr, "sort comparator %s: %v\n", ci.fn, u)
							}
							ok = false
							return
						}
						panic(rec)
					}
				}()
				r, ok = vc.inlineCall(scratch, ci.fn, []Val{{T: tyInt, S: []Term{bj}}, {T: tyInt, S: []Term{bi}}}, ci.bindings, fr.depth+1)
				return
			}()
			vc.quiet = saveQuiet
			vc.inQuant--
			if ok && len(res.S) == 1 {
				vc.assume(st, fmt.Sprintf("(forall ((%s Int) (%s Int)) (=> (and (<= 0 %s) (< %s %s) (< %s %s)) (not %s)))", bi, bj, bi, bi, bj, bj, ln, res.S[0]))
			} else {
				vc.notes["sort.Slice comparator could not be expanded: only the permutation is known"] = true
			}
			return Val{T: rt}
		}
	}
	models["sort.Slice"] = sortModel(false)
	models["sort.SliceStable"] = sortModel(true)
}
