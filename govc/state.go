package main

// VC context (declarations, ordered assumptions, obligations) and symbolic state.

import (
	"fmt"
	"go/token"
	"go/types"
	"sort"
	"strings"

	"golang.org/x/tools/go/ssa"
)

type Obligation struct {
	Name    string
	Kind    string // ensures | requires | invariant-init | invariant-preserve | modifies | safe | assert | lemma | cover
	Goal    Term
	NAssume int
	Pos     string
	Func    string
	Clause  string // source text of the clause
	Cover   bool   // cover query: expected SAT
	Result  *SolverResult
}

type closureInfo struct {
	fn       *ssa.Function
	bindings []Val
}

type VC struct {
	p           *Prog
	fnKey       string
	decls       []string
	assumes     []string
	obls        []*Obligation
	n           int
	keySort     map[string]string
	strLits     map[string]string
	fltLits     map[string]string
	closures    map[string]*closureInfo
	frames      int
	errs        []string
	trusted     map[string]bool // extern contracts / models / havocs used
	notes       map[string]bool
	uf          map[string]bool // declared uninterpreted functions
	quiet       bool            // suppress obligations (spec-side pure evaluation)
	guarded     [][2]string     // lock discipline of the function under contract (field, mutex field)
	guardN      int
	opaque      map[string]bool // in-repository callees treated as unknown code in this function
	inQuant     int             // >0 while evaluating a quantifier body
	defs        map[string]string
	lemma       map[int]bool // assumption indices that are proved-elsewhere lemmas
	lastType    map[string]types.Type
	oblNames    map[string]int
	boxedType   map[string]types.Type // box ref term -> static type of the boxed value
	boundNames  []string
	lastState   map[string]*State // state right after the most recent call counted under a label
	beforeState map[string]*State // state right before it
	labels      map[string]bool   // ghost call-history labels the contract under verification uses
	curPos      token.Pos
}

func newVC(p *Prog, fnKey string) *VC {
	vc := &VC{p: p, fnKey: fnKey, keySort: map[string]string{}, strLits: map[string]string{}, fltLits: map[string]string{},
		closures: map[string]*closureInfo{}, trusted: map[string]bool{}, notes: map[string]bool{}, uf: map[string]bool{}}
	// the map components are registered up front: a component registered lazily
	// (at its first use) would not have been forgotten by the unknown calls that
	// ran before that use
	vc.ensureKey("MLen", "(Array Int Int)")
	for _, ks := range []string{"Str", "Int"} {
		vc.ensureKey("MD_"+ks, fmt.Sprintf("(Array Int (Array %s Bool))", ks))
		for _, k := range allKinds {
			if k == KM {
				continue
			}
			vc.ensureKey("MV"+string(k)+"_"+ks, fmt.Sprintf("(Array Int (Array %s (Array Int %s)))", ks, k.Sort()))
		}
	}
	return vc
}

func (vc *VC) fresh(prefix, sort string) Term {
	if vc.inQuant > 0 {
		panic(unsupported{"fresh symbol needed inside a quantified specification (" + prefix + ")"})
	}
	vc.n++
	name := fmt.Sprintf("%s!%d", cleanName(prefix), vc.n)
	vc.decls = append(vc.decls, fmt.Sprintf("(declare-const %s %s)", name, sort))
	return name
}

func cleanName(s string) string {
	var b strings.Builder
	for _, c := range s {
		if c >= 'a' && c <= 'z' || c >= 'A' && c <= 'Z' || c >= '0' && c <= '9' || c == '_' || c == '.' {
			b.WriteRune(c)
		} else {
			b.WriteByte('_')
		}
	}
	if b.Len() == 0 {
		return "v"
	}
	return b.String()
}

func (vc *VC) declareUF(name, sig string) {
	if vc.uf[name] {
		return
	}
	vc.uf[name] = true
	vc.decls = append(vc.decls, fmt.Sprintf("(declare-fun %s %s)", name, sig))
}

// define introduces a named constant equal to t (keeps terms small).
func (vc *VC) define(prefix, sort string, t Term) Term {
	if len(t) < 40 {
		return t
	}
	if vc.inQuant > 0 {
		// ground sub-terms may still be named outside the quantifier
		for _, b := range vc.boundNames {
			if strings.Contains(t, b) {
				return t
			}
		}
		if strings.Contains(t, "q!") || strings.Contains(t, "l!") || strings.Contains(t, "!q") {
			return t
		}
	}
	if vc.defs == nil {
		vc.defs = map[string]string{}
	}
	if n, ok := vc.defs[t]; ok {
		return n
	}
	saved := vc.inQuant
	vc.inQuant = 0
	n := vc.fresh(prefix, sort)
	vc.inQuant = saved
	vc.assumes = append(vc.assumes, tEq(n, t))
	vc.defs[t] = n
	return n
}

func (vc *VC) assume(st *State, t Term) {
	if t == tTrue || vc.inQuant > 0 {
		return
	}
	vc.assumes = append(vc.assumes, tImp(st.pc, t))
}

func (vc *VC) assumeRaw(t Term) {
	if t == tTrue || vc.inQuant > 0 {
		return
	}
	vc.assumes = append(vc.assumes, t)
}

func (vc *VC) oblige(st *State, name, kind string, cond Term, clause string) {
	if vc.quiet {
		return
	}
	if cond == tTrue {
		// still recorded: counts as trivially discharged by construction
	}
	if vc.oblNames == nil {
		vc.oblNames = map[string]int{}
	}
	vc.oblNames[name]++
	if n := vc.oblNames[name]; n > 1 {
		name = fmt.Sprintf("%s~%d", name, n)
	}
	vc.obls = append(vc.obls, &Obligation{
		Name: name, Kind: kind, Goal: tImp(st.pc, cond), NAssume: len(vc.assumes),
		Pos: vc.p.pos(vc.curPos), Func: vc.fnKey, Clause: clause,
	})
	// assert-then-assume: later obligations at this point may use this one as a
	// lemma (it has its own query)
	if cond != tTrue && vc.inQuant == 0 {
		if vc.lemma == nil {
			vc.lemma = map[int]bool{}
		}
		vc.lemma[len(vc.assumes)] = true
		vc.assumes = append(vc.assumes, tImp(st.pc, cond))
	}
}

func (vc *VC) errorf(format string, a ...interface{}) {
	vc.errs = append(vc.errs, fmt.Sprintf(format, a...))
}

func (vc *VC) strLit(s string) Term {
	if s == "" {
		return "sempty"
	}
	if n, ok := vc.strLits[s]; ok {
		return n
	}
	n := fmt.Sprintf("lit!%d", len(vc.strLits))
	vc.strLits[s] = n
	return n
}

func (vc *VC) fltLit(s string) Term {
	if n, ok := vc.fltLits[s]; ok {
		return n
	}
	n := fmt.Sprintf("flt!%d", len(vc.fltLits))
	vc.fltLits[s] = n
	return n
}

// literalDecls: declarations and axioms of the string/float literals used.
func (vc *VC) literalDecls() []string {
	var out []string
	var names []string
	lits := make([]string, 0, len(vc.strLits))
	for s := range vc.strLits {
		lits = append(lits, s)
	}
	sort.Strings(lits)
	for _, s := range lits {
		out = append(out, fmt.Sprintf("(declare-const %s Str) ; %q", vc.strLits[s], s))
	}
	for _, s := range lits {
		n := vc.strLits[s]
		names = append(names, n)
		out = append(out, fmt.Sprintf("(assert (= (slen %s) %d))", n, len(s)))
		if len(s) <= 48 {
			for i := 0; i < len(s); i++ {
				out = append(out, fmt.Sprintf("(assert (= (sbyte %s %d) %d))", n, i, s[i]))
			}
		}
		out = append(out, fmt.Sprintf("(assert (= (slower %s) %s))", n, vc.lowerLitName(s)))
	}
	// prefix/suffix facts between literals
	pairLits := lits
	if len(lits) > 24 {
		pairLits = nil // too many literals: pairwise facts are left to the byte-level axioms
	}
	for _, a := range pairLits {
		for _, b := range pairLits {
			if a == b {
				continue
			}
			if strings.HasPrefix(a, b) {
				out = append(out, fmt.Sprintf("(assert (sprefix %s %s))", vc.strLits[a], vc.strLits[b]))
			} else {
				out = append(out, fmt.Sprintf("(assert (not (sprefix %s %s)))", vc.strLits[a], vc.strLits[b]))
			}
			if strings.HasSuffix(a, b) {
				out = append(out, fmt.Sprintf("(assert (ssuffix %s %s))", vc.strLits[a], vc.strLits[b]))
			} else {
				out = append(out, fmt.Sprintf("(assert (not (ssuffix %s %s)))", vc.strLits[a], vc.strLits[b]))
			}
			if a < b {
				out = append(out, fmt.Sprintf("(assert (slt %s %s))", vc.strLits[a], vc.strLits[b]))
			}
		}
		out = append(out, fmt.Sprintf("(assert (not (sprefix sempty %s)))", vc.strLits[a]))
		out = append(out, fmt.Sprintf("(assert (slt sempty %s))", vc.strLits[a]))
	}
	if len(names) > 0 {
		out = append(out, "(assert (distinct sempty "+strings.Join(names, " ")+"))")
	}
	var fl []string
	for s := range vc.fltLits {
		fl = append(fl, s)
	}
	sort.Strings(fl)
	var fn []string
	for _, s := range fl {
		out = append(out, fmt.Sprintf("(declare-const %s Flt) ; %s", vc.fltLits[s], s))
		fn = append(fn, vc.fltLits[s])
	}
	if len(fn) > 1 {
		out = append(out, "(assert (distinct "+strings.Join(fn, " ")+"))")
	}
	return out
}

func (vc *VC) lowerLitName(s string) Term {
	l := strings.ToLower(s)
	if l == "" {
		return "sempty"
	}
	if n, ok := vc.strLits[l]; ok {
		return n
	}
	// not registered: the fact is simply not emitted as an equality to a literal
	return "(slower " + vc.strLits[s] + ")"
}

// ---------------------------------------------------------------------------

type State struct {
	pc Term
	v  map[string]Term
}

func (s *State) clone() *State {
	n := &State{pc: s.pc, v: make(map[string]Term, len(s.v))}
	for k, t := range s.v {
		n.v[k] = t
	}
	return n
}

func (s *State) with(cond Term) *State {
	n := s.clone()
	n.pc = tAnd(s.pc, cond)
	return n
}

func heapSort(k Kind) string { return "(Array Int (Array Int " + k.Sort() + "))" }

func (vc *VC) get(st *State, key string) Term {
	t, ok := st.v[key]
	if !ok {
		// lazily created state component (map arrays, ghost counters): same
		// initial symbol in every state that has not written it
		srt := vc.keySort[key]
		if srt == "" {
			panic("state key without sort: " + key)
		}
		name := "init." + cleanName(key)
		if !vc.uf[name] {
			vc.uf[name] = true
			vc.decls = append(vc.decls, fmt.Sprintf("(declare-const %s %s)", name, srt))
			vc.initFacts(key, name)
		}
		return name
	}
	return t
}

func (vc *VC) set(st *State, key string, t Term) {
	if len(t) > 160 && vc.inQuant == 0 && vc.keySort[key] != "" {
		n := vc.fresh("s."+key, vc.keySort[key])
		vc.assumeRaw(tEq(n, t))
		t = n
	}
	st.v[key] = t
}

func (vc *VC) ensureKey(key, sort string) {
	if vc.keySort[key] == "" {
		vc.keySort[key] = sort
	}
}

// initFacts: facts about initial (or havocked) instances of state components.
func (vc *VC) initFacts(key, name string) {
	switch {
	case strings.HasPrefix(key, "MD_"):
		ks := strings.TrimPrefix(key, "MD_")
		vc.decls = append(vc.decls, fmt.Sprintf("(assert (= (select %s 0) ((as const (Array %s Bool)) false)))", name, sortOfKeyName(ks)))
	case key == "MLen":
		vc.decls = append(vc.decls, fmt.Sprintf("(assert (= (select %s 0) 0))", name))
		vc.decls = append(vc.decls, fmt.Sprintf("(assert (forall ((m Int)) (! (>= (select %s m) 0) :pattern ((select %s m)))))", name, name))
	case strings.HasPrefix(key, "g.calls."):
		vc.decls = append(vc.decls, fmt.Sprintf("(assert (= %s 0))", name))
	case strings.HasPrefix(key, "g.all."):
		vc.decls = append(vc.decls, fmt.Sprintf("(assert %s)", name))
	}
}

func sortOfKeyName(ks string) string {
	switch ks {
	case "Int":
		return "Int"
	case "Str":
		return "Str"
	case "Bool":
		return "Bool"
	}
	return ks
}

// havocKey replaces a state component by a fresh symbol.
func (vc *VC) havocKey(st *State, key string) Term {
	srt := vc.keySort[key]
	if srt == "" {
		panic("havoc of key without sort: " + key)
	}
	n := vc.fresh("hv."+key, srt)
	// facts
	switch {
	case strings.HasPrefix(key, "MD_"):
		vc.assumeRaw(fmt.Sprintf("(= (select %s 0) ((as const (Array %s Bool)) false))", n, sortOfKeyName(strings.TrimPrefix(key, "MD_"))))
	case key == "MLen":
		vc.assumeRaw(fmt.Sprintf("(= (select %s 0) 0)", n))
		vc.assumeRaw(fmt.Sprintf("(forall ((m Int)) (! (>= (select %s m) 0) :pattern ((select %s m))))", n, n))
	}
	st.v[key] = n
	return n
}

type edgeIn struct {
	pred *ssa.BasicBlock
	st   *State
}

// merge joins the states of incoming edges.
func (vc *VC) merge(label string, ins []edgeIn) *State {
	if len(ins) == 1 {
		return ins[0].st.clone()
	}
	out := &State{v: map[string]Term{}}
	var pcs []Term
	for _, e := range ins {
		pcs = append(pcs, e.st.pc)
	}
	if vc.inQuant > 0 {
		out.pc = tOr(pcs...)
	} else {
		pc := vc.fresh("pc."+label, "Bool")
		vc.assumeRaw(tEq(pc, tOr(pcs...)))
		out.pc = pc
	}
	keys := map[string]bool{}
	for _, e := range ins {
		for k := range e.st.v {
			keys[k] = true
		}
	}
	ks := make([]string, 0, len(keys))
	for k := range keys {
		ks = append(ks, k)
	}
	sort.Strings(ks)
	for _, k := range ks {
		var terms []Term
		var conds []Term
		same := true
		for _, e := range ins {
			t, ok := e.st.v[k]
			if !ok {
				if !isGlobalKey(k) {
					continue // frame-local value defined on some paths only
				}
				t = vc.get(e.st, k)
			}
			if len(terms) > 0 && t != terms[0] {
				same = false
			}
			terms = append(terms, t)
			conds = append(conds, e.st.pc)
		}
		if len(terms) == 0 {
			continue
		}
		if same {
			out.v[k] = terms[0]
			continue
		}
		if vc.inQuant > 0 {
			t := terms[len(terms)-1]
			for i := len(terms) - 2; i >= 0; i-- {
				t = tIte(conds[i], terms[i], t)
			}
			out.v[k] = t
			continue
		}
		srt := vc.keySort[k]
		if srt == "" {
			panic("merge: key without sort " + k)
		}
		n := vc.fresh("m."+k, srt)
		for i := range terms {
			vc.assumeRaw(tImp(conds[i], tEq(n, terms[i])))
		}
		out.v[k] = n
	}
	return out
}

func isGlobalKey(k string) bool {
	return !(len(k) > 1 && k[0] == 'f' && k[1] >= '0' && k[1] <= '9' && strings.Contains(k, ":"))
}

// ---------------------------------------------------------------------------
// heap access

func (vc *VC) heapKey(k Kind) string {
	key := k.Heap()
	vc.ensureKey(key, heapSort(k))
	return key
}

func (vc *VC) allocKey() string {
	vc.ensureKey("alloc", "Int") // next unallocated reference (objects are numbered in allocation order)
	return "alloc"
}

func (vc *VC) isAlloc(st *State, ref Term) Term {
	return tOr(tLt(ref, "0"), tAnd(tLt("0", ref), tLt(ref, vc.get(st, vc.allocKey()))))
}

func (vc *VC) loadAt(st *State, ref, off Term, t types.Type) Val {
	lay := vc.p.lay.of(t)
	v := Val{T: t}
	for i, k := range lay.Kinds {
		h := vc.get(st, vc.heapKey(k))
		v.S = append(v.S, tSel2(h, ref, tAdd(off, tInt(int64(i)))))
	}
	vc.fixOffsets(t, v.S, 0)
	return v
}

func (vc *VC) storeAt(st *State, ref, off Term, val Val) {
	lay := vc.p.lay.of(val.T)
	if len(lay.Kinds) != len(val.S) {
		panic(fmt.Sprintf("storeAt: layout mismatch %v: %d vs %d", val.T, len(lay.Kinds), len(val.S)))
	}
	// one update of the object per kind (nested tSto2 would duplicate terms)
	byKind := map[Kind]Term{}
	var order []Kind
	for i, k := range lay.Kinds {
		obj, ok := byKind[k]
		if !ok {
			obj = tSel(vc.get(st, vc.heapKey(k)), ref)
			order = append(order, k)
		}
		byKind[k] = tSto(obj, tAdd(off, tInt(int64(i))), val.S[i])
	}
	for _, k := range order {
		key := vc.heapKey(k)
		vc.set(st, key, tSto(vc.get(st, key), ref, byKind[k]))
	}
}

func zeroTerm(k Kind) Term {
	switch k {
	case KI:
		return "0"
	case KB:
		return tFalse
	case KS:
		return "sempty"
	case KF:
		return "(i2f 0)"
	case KT:
		return "tzero"
	case KM:
		return tFalse
	}
	panic("zero")
}

func (vc *VC) zeroVal(t types.Type) Val {
	lay := vc.p.lay.of(t)
	v := Val{T: t}
	for _, k := range lay.Kinds {
		v.S = append(v.S, zeroTerm(k))
	}
	return v
}

func (vc *VC) freshVal(prefix string, t types.Type) Val {
	lay := vc.p.lay.of(t)
	v := Val{T: t}
	for i, k := range lay.Kinds {
		v.S = append(v.S, vc.fresh(fmt.Sprintf("%s.%d", prefix, i), k.Sort()))
	}
	vc.fixOffsets(t, v.S, 0)
	return v
}

// newObject allocates a fresh zeroed object; returns its ref.  References are
// numbered in allocation order: the new object is the next free number.
func (vc *VC) newObject(st *State, prefix string, dyn types.Type, kinds []Kind) Term {
	ak := vc.allocKey()
	a := vc.get(st, ak)
	r := vc.fresh("ref."+prefix, "Int")
	vc.assume(st, tEq(r, a))
	if dyn != nil {
		id := vc.p.objID(dyn)
		if strings.HasPrefix(prefix, "cell.") {
			id = vc.p.typeID(dyn)
		}
		vc.assume(st, tEq(sx("dtype", r), tInt(int64(id))))
	}
	vc.set(st, ak, tAdd(r, "1"))
	seen := map[Kind]bool{}
	for _, k := range kinds {
		if seen[k] {
			continue
		}
		seen[k] = true
		key := vc.heapKey(k)
		h := vc.get(st, key)
		vc.set(st, key, tSto(h, r, zeroArr(k)))
	}
	return r
}

// wellTyped: facts that hold of every Go value of static type t.
func (vc *VC) wellTyped(st *State, v Val) Term {
	return vc.wellTypedAt(st, v.T, v.S, 0)
}

func (vc *VC) wellTypedAt(st *State, t types.Type, s []Term, depth int) Term {
	t = types.Unalias(t)
	if isNamed(t, "time", "Time") || isNamed(t, "sync", "Mutex") || isNamed(t, "sync", "RWMutex") {
		return tTrue
	}
	switch u := t.Underlying().(type) {
	case *types.Basic:
		if un, _ := isUnsigned(t); un {
			return rangeOf(t, s[0])
		}
		if intBits(t) > 0 && intBits(t) < 64 {
			return rangeOf(t, s[0])
		}
		return tTrue
	case *types.Pointer:
		c := []Term{vc.isAlloc(st, s[0])}
		if vc.p.rootOnly(u.Elem()) {
			c = append(c, tEq(s[1], "0"), tEq(sx("dtype", s[0]), tInt(int64(vc.p.typeID(u.Elem())))))
		} else if _, isSt := u.Elem().Underlying().(*types.Struct); isSt {
			if _, named := types.Unalias(u.Elem()).(*types.Named); named {
				if hs := vc.p.holderTypes(u.Elem()); hs != nil {
					var alts []Term
					for _, h := range hs {
						dt := tEq(sx("dtype", s[0]), tInt(int64(vc.p.objID(h))))
						// offsets at which the pointee can sit inside the holder
						if _, isSt := h.Underlying().(*types.Struct); isSt {
							offs := vc.p.offsetsOf(h, u.Elem(), 0, 0)
							if len(offs) > 0 && len(offs) <= 8 {
								var os []Term
								for _, o := range offs {
									os = append(os, tEq(s[1], tInt(int64(o))))
								}
								dt = tAnd(dt, tOr(os...))
							}
						}
						alts = append(alts, dt)
					}
					c = append(c, tOr(alts...), tLe("0", s[1]))
				}
			}
		}
		if _, isBasic := u.Elem().Underlying().(*types.Basic); isBasic && intBits(u.Elem()) != 8 {
			// type-based disjointness: a *B never points into an object that holds no B
			// (bytes excepted: []byte views exist)
			for _, id := range vc.p.notHolding(u.Elem()) {
				c = append(c, tNot(tEq(sx("dtype", s[0]), tInt(int64(id)))))
			}
		}
		return tOr(tAnd(tEq(s[0], "0"), tEq(s[1], "0")), tAnd(c...))
	case *types.Slice:
		return tAnd(tLe("0", s[2]), tLe(s[2], s[3]), tLe("0", s[1]),
			tOr(tAnd(tEq(s[0], "0"), tEq(s[3], "0"), tEq(s[1], "0")), tAnd(tNot(tEq(s[0], "0")), vc.isAlloc(st, s[0]), tEq(sx("dtype", s[0]), tInt(int64(vc.p.objID(t)))))))
	case *types.Map:
		return tOr(tEq(s[0], "0"), tAnd(tLt("0", s[0]), vc.isAlloc(st, s[0]), tEq(sx("dtype", s[0]), tInt(int64(vc.p.typeID(t))))))
	case *types.Interface, *types.TypeParam:
		return tAnd(tLe("0", s[0]), tOr(tNot(tEq(s[0], "0")), tAnd(tEq(s[1], "0"), tEq(s[2], "0"))))
	case *types.Struct:
		if depth > 3 {
			return tTrue
		}
		var cs []Term
		off := 0
		for i := 0; i < u.NumFields(); i++ {
			ft := u.Field(i).Type()
			n := vc.p.lay.size(ft)
			cs = append(cs, vc.wellTypedAt(st, ft, s[off:off+n], depth+1))
			off += n
		}
		return tAnd(cs...)
	case *types.Tuple:
		var cs []Term
		off := 0
		for i := 0; i < u.Len(); i++ {
			ft := u.At(i).Type()
			n := vc.p.lay.size(ft)
			cs = append(cs, vc.wellTypedAt(st, ft, s[off:off+n], depth+1))
			off += n
		}
		return tAnd(cs...)
	}
	return tTrue
}

// ---------------------------------------------------------------------------
// maps

func (vc *VC) keySortOf(t types.Type) (string, bool) {
	lay := vc.p.lay.of(t)
	if len(lay.Kinds) == 1 {
		return lay.Kinds[0].Sort(), true
	}
	// multi-slot keys: tuple datatype
	name := "K"
	for _, k := range lay.Kinds {
		name += string(k)
	}
	if !vc.uf["sort:"+name] {
		vc.uf["sort:"+name] = true
		var fs []string
		for i, k := range lay.Kinds {
			fs = append(fs, fmt.Sprintf("(%s_%d %s)", name, i, k.Sort()))
		}
		// must precede every use: put in front
		vc.decls = append([]string{fmt.Sprintf("(declare-datatypes ((%s 0)) (((mk%s %s))))", name, name, strings.Join(fs, " "))}, vc.decls...)
	}
	return name, true
}

func (vc *VC) keyTerm(k Val) Term {
	if len(k.S) == 1 {
		return k.S[0]
	}
	srt, _ := vc.keySortOf(k.T)
	return sx("mk"+srt, k.S...)
}

func (vc *VC) mapDomKey(kt types.Type) string {
	ks, _ := vc.keySortOf(kt)
	key := "MD_" + ks
	vc.ensureKey(key, fmt.Sprintf("(Array Int (Array %s Bool))", ks))
	return key
}

func (vc *VC) mapValKey(kt types.Type, k Kind) string {
	ks, _ := vc.keySortOf(kt)
	key := "MV" + string(k) + "_" + ks
	vc.ensureKey(key, fmt.Sprintf("(Array Int (Array %s (Array Int %s)))", ks, k.Sort()))
	return key
}

func (vc *VC) mapLenKey() string {
	vc.ensureKey("MLen", "(Array Int Int)")
	return "MLen"
}

func (vc *VC) mapHas(st *State, m Term, k Val) Term {
	return tSel2(vc.get(st, vc.mapDomKey(k.T)), m, vc.keyTerm(k))
}

func (vc *VC) mapGetRaw(st *State, m Term, k Val, vt types.Type) Val {
	lay := vc.p.lay.of(vt)
	v := Val{T: vt}
	kt := vc.keyTerm(k)
	for i, kd := range lay.Kinds {
		a := vc.get(st, vc.mapValKey(k.T, kd))
		v.S = append(v.S, tSel(tSel2(a, m, kt), tInt(int64(i))))
	}
	vc.fixOffsets(vt, v.S, 0)
	return v
}

func (vc *VC) mapGet(st *State, m Term, k Val, vt types.Type) (Val, Term) {
	has := vc.define("has", "Bool", vc.mapHas(st, m, k))
	raw := vc.mapGetRaw(st, m, k, vt)
	z := vc.zeroVal(vt)
	v := Val{T: vt}
	for i := range raw.S {
		v.S = append(v.S, tIte(has, raw.S[i], z.S[i]))
	}
	return v, has
}

func (vc *VC) mapSet(st *State, m Term, k Val, val Val) {
	kt := vc.keyTerm(k)
	dk := vc.mapDomKey(k.T)
	d := vc.get(st, dk)
	had := tSel2(d, m, kt)
	lk := vc.mapLenKey()
	l := vc.get(st, lk)
	vc.set(st, lk, tSto(l, m, tAdd(tSel(l, m), tIte(had, "0", "1"))))
	vc.set(st, dk, tSto2(d, m, kt, tTrue))
	lay := vc.p.lay.of(val.T)
	for i, kd := range lay.Kinds {
		key := vc.mapValKey(k.T, kd)
		a := vc.get(st, key)
		inner := tSel2(a, m, kt)
		vc.set(st, key, tSto2(a, m, kt, tSto(inner, tInt(int64(i)), val.S[i])))
	}
}

func (vc *VC) mapDelete(st *State, m Term, k Val) {
	kt := vc.keyTerm(k)
	dk := vc.mapDomKey(k.T)
	d := vc.get(st, dk)
	had := tSel2(d, m, kt)
	lk := vc.mapLenKey()
	l := vc.get(st, lk)
	vc.set(st, lk, tSto(l, m, tSub(tSel(l, m), tIte(had, "1", "0"))))
	vc.set(st, dk, tSto2(d, m, kt, tFalse))
}

// mapLenFacts ties len(m) to the domain for one map term in one state.
func (vc *VC) mapLenFacts(st *State, m Term, kt types.Type) Term {
	ks, _ := vc.keySortOf(kt)
	d := tSel(vc.get(st, vc.mapDomKey(kt)), m)
	l := tSel(vc.get(st, vc.mapLenKey()), m)
	return tAnd(tLe("0", l),
		fmt.Sprintf("(forall ((k!q %s)) (! (=> (select %s k!q) (> %s 0)) :pattern ((select %s k!q))))", ks, d, l, d),
		tImp(tLt("0", l), fmt.Sprintf("(exists ((k!q %s)) (select %s k!q))", ks, d)))
}

// elemOff is the slot offset of element idx of a sequence starting at off with
// elements of es slots.  It is an uninterpreted function with a defining axiom
// so that quantified facts about elements can be matched syntactically.
func (vc *VC) elemOff(off, idx Term, es int) Term {
	name := fmt.Sprintf("eo%d", es)
	if !vc.uf[name] {
		vc.uf[name] = true
		vc.decls = append(vc.decls, fmt.Sprintf("(declare-fun %s (Int Int) Int)", name))
		vc.decls = append(vc.decls, fmt.Sprintf("(assert (forall ((o!q Int) (i!q Int)) (! (= (%s o!q i!q) (+ o!q (* %d i!q))) :pattern ((%s o!q i!q)))))", name, es, name))
	}
	return sx(name, off, idx)
}

func zeroArr(k Kind) Term {
	switch k {
	case KI:
		return "((as const (Array Int Int)) 0)"
	case KB:
		return "((as const (Array Int Bool)) false)"
	case KS:
		return "zarrS"
	case KF:
		return "zarrF"
	case KT:
		return "zarrT"
	case KM:
		return "((as const (Array Int Bool)) false)"
	}
	panic("zeroArr")
}

// fixOffsets replaces the offset slot of pointers to root-only types by the
// constant 0 (their typing fact says off == 0); keeps terms and triggers simple.
func (vc *VC) fixOffsets(t types.Type, s []Term, depth int) {
	t = types.Unalias(t)
	if depth > 4 || isNamed(t, "time", "Time") || isNamed(t, "sync", "Mutex") || isNamed(t, "sync", "RWMutex") {
		return
	}
	switch u := t.Underlying().(type) {
	case *types.Pointer:
		if vc.p.rootOnly(u.Elem()) && len(s) == 2 {
			s[1] = "0"
		}
	case *types.Struct:
		off := 0
		for i := 0; i < u.NumFields(); i++ {
			n := vc.p.lay.size(u.Field(i).Type())
			if off+n <= len(s) {
				vc.fixOffsets(u.Field(i).Type(), s[off:off+n], depth+1)
			}
			off += n
		}
	case *types.Tuple:
		off := 0
		for i := 0; i < u.Len(); i++ {
			n := vc.p.lay.size(u.At(i).Type())
			if off+n <= len(s) {
				vc.fixOffsets(u.At(i).Type(), s[off:off+n], depth+1)
			}
			off += n
		}
	}
}
