package main

// Top-level verification of one function against its contract.

import (
	"fmt"
	"go/types"
	"sort"
	"strings"

	"golang.org/x/tools/go/ssa"
)

type FuncResult struct {
	Key     string
	VC      *VC
	Err     string // non-empty: function outside the subset / contract error
	Returns int
}

// verifyFunc generates the obligations of fn under contract ct.
func (p *Prog) verifyFunc(fn *ssa.Function, ct *Contract) (res *FuncResult) {
	key := funcKey(fn)
	if ct != nil && baseKey(ct.Key) == key {
		key = ct.Key // contract variants keep their suffix in obligation names
	}
	vc := newVC(p, key)
	res = &FuncResult{Key: key, VC: vc}
	defer func() {
		if r := recover(); r != nil {
			if u, ok := r.(unsupported); ok {
				res.Err = u.msg
				return
			}
			panic(r)
		}
	}()
	vc.labels = historyLabels(ct)
	if ct != nil {
		vc.guarded = ct.Guarded
	}
	// result types of the counted callees that occur in this function, so that
	// first(L) / last(L) can be mentioned before the first call (loop entry)
	{
		var scan func(f *ssa.Function)
		scan = func(f *ssa.Function) {
			for _, b := range f.Blocks {
				for _, in := range b.Instrs {
					ci, ok := in.(ssa.CallInstruction)
					if !ok {
						continue
					}
					c := ci.Common()
					k := ""
					if c.IsInvoke() {
						k = ifaceMethodKey(c)
					} else if cf, ok := c.Value.(*ssa.Function); ok {
						if cf.Origin() != nil {
							cf = cf.Origin()
						}
						k = funcKey(cf)
					}
					for _, lab := range p.countOf[k] {
						if !vc.labels[lab] {
							continue
						}
						if vc.lastType == nil {
							vc.lastType = map[string]types.Type{}
						}
						if _, seen := vc.lastType[lab]; seen {
							continue
						}
						rt := vc.resultType(c.Signature())
						vc.lastType[lab] = rt
						for i, kd := range p.lay.of(rt).Kinds {
							vc.ensureKey(fmt.Sprintf("g.last.%s:%d", lab, i), kd.Sort())
							vc.ensureKey(fmt.Sprintf("g.first.%s:%d", lab, i), kd.Sort())
						}
					}
				}
			}
		}
		scan(fn)
		// labels without a call site in this function: take the result type from
		// the callee itself when it exists in the program (so that a removed call
		// makes calls(L)/last(L) obligations fail instead of the contract being rejected)
		for key, labs := range p.countOf {
			for _, lab := range labs {
				if !vc.labels[lab] {
					continue
				}
				if _, seen := vc.lastType[lab]; seen {
					continue
				}
				if cf := p.funcByKey(key); cf != nil {
					if vc.lastType == nil {
						vc.lastType = map[string]types.Type{}
					}
					rt := vc.resultType(cf.Signature)
					vc.lastType[lab] = rt
					for i, kd := range p.lay.of(rt).Kinds {
						vc.ensureKey(fmt.Sprintf("g.last.%s:%d", lab, i), kd.Sort())
						vc.ensureKey(fmt.Sprintf("g.first.%s:%d", lab, i), kd.Sort())
					}
				}
			}
		}
	}
	fr := vc.newFrame(fn, 0)
	fr.top = true
	fr.contract = ct
	fr.markHelperAssertions()
	st := &State{pc: tTrue, v: map[string]Term{}}
	// initial heap symbols
	for _, k := range allKinds {
		vc.get(st, vc.heapKey(k))
	}
	vc.get(st, vc.allocKey())
	vc.assumeRaw(tLt("0", vc.get(st, "alloc")))
	// parameters
	fr.specVars = map[string]Val{}
	for i, prm := range fn.Params {
		v := vc.freshVal("p."+prm.Name(), prm.Type())
		v.T = prm.Type()
		vc.assumeRaw(vc.wellTyped(st, v))
		// machine range of integer parameters
		if intBits(prm.Type()) > 0 {
			vc.assumeRaw(rangeOf(prm.Type(), v.S[0]))
		}
		fr.params = append(fr.params, v)
		if prm.Name() != "" && prm.Name() != "_" {
			fr.specVars[prm.Name()] = v
		}
		fr.specVars[fmt.Sprintf("$%d", i)] = v
		// receivers are non-nil
		if i == 0 && fn.Signature.Recv() != nil {
			if _, ok := prm.Type().Underlying().(*types.Pointer); ok {
				vc.assumeRaw(tNot(tEq(v.S[0], "0")))
			}
		}
	}
	for _, fv := range fn.FreeVars {
		v := vc.freshVal("fv."+fv.Name(), fv.Type())
		vc.assumeRaw(vc.wellTyped(st, v))
		fr.freeVars = append(fr.freeVars, v)
		// captured variable x is visible by name through its cell
		if pt, ok := fv.Type().Underlying().(*types.Pointer); ok {
			// a captured variable lives in its own heap cell
			vc.assumeRaw(tAnd(tNot(tEq(v.S[0], "0")), tEq(v.S[1], "0"), tEq(sx("dtype", v.S[0]), tInt(int64(p.typeID(pt.Elem()))))))
			fr.specVars["&"+fv.Name()] = v
		}
	}
	// requires
	pre := &SEnv{vc: vc, fr: fr, fn: fn, cur: st, old: st, vars: map[string]Val{}, ct: ct, assumeMode: true}
	for k, v := range fr.specVars {
		pre.vars[k] = v
	}
	fr.entry = st
	isInit := fn.Name() == "init" && fn.Signature.Recv() == nil && fn.Parent() == nil
	fr.isInit = isInit
	if !isInit {
		for _, gi := range p.globalInvs {
			if pk := pre.pkg(); gi.inPkg(pk) {
				func() {
					defer func() {
						if r := recover(); r != nil {
							if u, ok := r.(unsupported); ok {
								panic(unsupported{"global invariant " + gi.Clause.Label + " cannot be stated any more: " + u.msg})
							}
							panic(r)
						}
					}()
					vc.assumeRaw(pre.evalBool(gi.Clause.Expr))
				}()
				vc.trusted["global-invariant:"+gi.Pkg+"."+gi.Clause.Label+" (proved of init; no-other-store scan)"] = true
			}
		}
	}
	for _, rq := range ct.Requires {
		vc.assumeRaw(pre.evalBool(rq.Expr))
	}
	for _, as := range ct.Assumes {
		vc.assumeRaw(pre.evalBool(as.Expr))
		vc.trusted["assumed-invariant:"+key+"["+as.Label+"]: "+as.Text] = true
	}
	// cover: the precondition is satisfiable
	vc.obls = append(vc.obls, &Obligation{Name: key + "/cover[entry]", Kind: "cover", Goal: tFalse, NAssume: len(vc.assumes), Func: key, Cover: true, Pos: p.pos(fn.Pos()), Clause: "requires and typing assumptions are satisfiable"})

	if isInit {
		p.verifyInitGlobals(fn, fr, st)
		return res
	}
	for _, sa := range ct.StoreAfter {
		// syntactic obligation: every store to the field happens after (is
		// dominated by) a call of the named callee
		var bad []string
		type site struct {
			b   *ssa.BasicBlock
			idx int
		}
		var calls []site
		for _, b := range fn.Blocks {
			for i, in := range b.Instrs {
				if ci, ok := in.(ssa.CallInstruction); ok {
					c := ci.Common()
					k := ""
					if c.IsInvoke() {
						k = ifaceMethodKey(c)
					} else if cf, ok := c.Value.(*ssa.Function); ok {
						if cf.Origin() != nil {
							cf = cf.Origin()
						}
						k = funcKey(cf)
					}
					if k != "" && calleeMatches(k, sa[1]) {
						calls = append(calls, site{b, i})
					}
				}
			}
		}
		nStores := 0
		for _, b := range fn.Blocks {
			for i, in := range b.Instrs {
				st, ok := in.(*ssa.Store)
				if !ok {
					continue
				}
				fa, ok := st.Addr.(*ssa.FieldAddr)
				if !ok || fieldName(fa) != sa[0] {
					continue
				}
				nStores++
				dominated := false
				for _, c := range calls {
					if (c.b == b && c.idx < i) || (c.b != b && c.b.Dominates(b)) {
						dominated = true
					}
				}
				if !dominated {
					bad = append(bad, p.pos(st.Pos()))
				}
			}
		}
		stt := "unsat"
		if len(bad) > 0 || nStores == 0 {
			stt = "sat"
		}
		vc.obls = append(vc.obls, &Obligation{Name: key + "/store[" + sa[0] + "]-after[" + sa[1] + "]", Kind: "scan", Goal: tTrue, Func: key, Pos: p.pos(fn.Pos()),
			Clause: "every store to field " + sa[0] + " is dominated by a call of " + sa[1],
			Result: &SolverResult{Status: stt, Solver: "syntactic-scan", Output: fmt.Sprintf("stores: %d, not dominated by the call: %s", nStores, strings.Join(bad, ", "))}})
	}
	if ct.MapRangeCollects {
		// syntactic obligation: the body of every loop that ranges over a map
		// contains no call (besides builtins): the order of the map cannot
		// influence anything but the order of what is collected
		var found []string
		for _, li := range findLoops(fn) {
			isMapRange := false
			for _, in := range li.header.Instrs {
				if n, ok := in.(*ssa.Next); ok {
					if r, ok := n.Iter.(*ssa.Range); ok {
						if _, isMap := r.X.Type().Underlying().(*types.Map); isMap {
							isMapRange = true
						}
					}
				}
			}
			if !isMapRange {
				continue
			}
			for b := range li.blocks {
				for _, in := range b.Instrs {
					if ci, ok := in.(ssa.CallInstruction); ok {
						if _, isBuiltin := ci.Common().Value.(*ssa.Builtin); !isBuiltin {
							found = append(found, p.pos(in.Pos()))
						}
					}
				}
			}
		}
		sort.Strings(found)
		stt := "unsat"
		if len(found) > 0 {
			stt = "sat"
		}
		vc.obls = append(vc.obls, &Obligation{Name: key + "/map-range-collects-only", Kind: "scan", Goal: tTrue, Func: key, Pos: p.pos(fn.Pos()),
			Clause: "loops that range over a map call nothing (iteration order is random)",
			Result: &SolverResult{Status: stt, Solver: "syntactic-scan", Output: "calls inside a map range at " + strings.Join(found, ", ")}})
	}
	if ct.NoMapRange {
		// syntactic obligation: no iteration over a Go map (whose order is random)
		var found []string
		var scan func(f *ssa.Function)
		scan = func(f *ssa.Function) {
			for _, b := range f.Blocks {
				for _, in := range b.Instrs {
					if rg, ok := in.(*ssa.Range); ok {
						if _, isMap := rg.X.Type().Underlying().(*types.Map); isMap {
							found = append(found, p.pos(rg.Pos()))
						}
					}
				}
			}
			for _, a := range f.AnonFuncs {
				scan(a)
			}
		}
		scan(fn)
		stt := "unsat"
		if len(found) > 0 {
			stt = "sat"
		}
		vc.obls = append(vc.obls, &Obligation{Name: key + "/no-map-range", Kind: "scan", Goal: tTrue, Func: key, Pos: p.pos(fn.Pos()),
			Clause: "the function does not range over a map (iteration order is random)",
			Result: &SolverResult{Status: stt, Solver: "syntactic-scan", Output: "map range at " + strings.Join(found, ", ")}})
	}
	exits := fr.run(st)
	res.Returns = len(exits)
	// order return sites by source position
	sort.SliceStable(exits, func(i, j int) bool {
		pi, pj := exits[i].ret.Pos(), exits[j].ret.Pos()
		if pi != pj {
			return pi < pj
		}
		return exits[i].ret.Block().Index < exits[j].ret.Block().Index
	})
	var frameTs []modTarget
	if ct.HasMod {
		fenv := fr.specEnv(fr.entry, fr.entry)
		frameTs = fenv.modTargets(ct.Modifies)
	}
	lemmaSites := map[*Clause]int{}
	defer func() {
		if res.Err == "" && len(exits) > 0 {
			for en := range ct.Lemmas {
				if lemmaSites[en] == 0 {
					res.Err = "lemma [" + en.Label + "] mentions identifiers that are in scope at no return site"
				}
			}
		}
	}()
	for i, ex := range exits {
		site := fmt.Sprintf("@return[%d]", i+1)
		if len(exits) == 1 {
			site = ""
		}
		vc.curPos = ex.ret.Pos()
		post := fr.specEnv(ex.st, fr.entry)
		post.block = ex.ret.Block()
		post.results = ex.results
		for _, en := range ct.Ensures {
			name := fmt.Sprintf("%s/ensures[%s]%s", key, en.Label, site)
			if ct.Lemmas[en] {
				// a lemma may mention locals: it is stated at the return sites where
				// they are in scope (at least one)
				goal, ok := func() (g Term, ok bool) {
					defer func() {
						if r := recover(); r != nil {
							if u, isU := r.(unsupported); isU && strings.Contains(u.msg, "unknown identifier") {
								ok = false
								return
							}
							panic(r)
						}
					}()
					return post.evalBool(en.Expr), true
				}()
				if !ok {
					continue
				}
				lemmaSites[en]++
				vc.oblige(ex.st, name, "ensures", goal, en.Text)
				continue
			}
			vc.oblige(ex.st, name, "ensures", post.evalBool(en.Expr), en.Text)
		}
		if isInit {
			for _, gi := range p.globalInvs {
				if pk := post.pkg(); gi.inPkg(pk) {
					name := fmt.Sprintf("%s/global-invariant[%s]%s", key, gi.Clause.Label, site)
					vc.oblige(ex.st, name, "ensures", post.evalBool(gi.Clause.Expr), gi.Clause.Text)
					// nothing but the initializer stores to the variables mentioned
					names := map[string]bool{}
					globalsIn(gi.Clause.Expr, names)
					for n := range names {
						g, ok := fn.Pkg.Members[n].(*ssa.Global)
						if !ok {
							continue
						}
						bad := p.scanGlobalWrites(fn.Pkg, g)
						st := "unsat"
						if len(bad) > 0 {
							st = "sat"
						}
						vc.obls = append(vc.obls, &Obligation{Name: fmt.Sprintf("%s/global-invariant[%s]/no-other-store[%s]", key, gi.Clause.Label, n), Kind: "scan",
							Goal: tTrue, Func: key, Pos: p.pos(g.Pos()), Clause: "only the package initializer stores to " + n,
							Result: &SolverResult{Status: st, Solver: "syntactic-scan", Output: strings.Join(bad, "\n")}})
					}
				}
			}
		}
		if ct.HasMod {
			for _, g := range vc.frameGoal(fr.entry, ex.st, frameTs) {
				name := fmt.Sprintf("%s/modifies[%s]%s", key, g.name, site)
				vc.oblige(ex.st, name, "modifies", g.goal, "modifies clause (frame)")
			}
		}
		// cover: this return is reachable
		vc.obls = append(vc.obls, &Obligation{Name: fmt.Sprintf("%s/cover[return%d]", key, i+1), Kind: "cover", Goal: tNot(ex.st.pc), NAssume: len(vc.assumes), Func: key, Cover: true, Pos: p.pos(ex.ret.Pos()), Clause: "return site reachable"})
	}
	// unused call-site assertions are contract errors (vacuity)
	for _, ca := range ct.CallAsrt {
		if !ca.Used {
			vc.errs = append(vc.errs, fmt.Sprintf("at-call assertion [%s] on %s#%d matched no call", ca.Clause.Label, ca.Callee, ca.Ord))
		}
		ca.Used = false
	}
	for k := range ct.Loops {
		found := false
		for _, li := range fr.loops {
			if li.ord == k {
				found = true
			}
		}
		if !found {
			vc.errs = append(vc.errs, fmt.Sprintf("loop %d has clauses but the function has %d loops", k, len(fr.loops)))
		}
	}
	return res
}

func (vc *VC) query(o *Obligation) *Query {
	q := &Query{Name: o.Name}
	q.Decls = append(q.Decls, vc.literalDecls()...)
	q.Decls = append(q.Decls, vc.decls...)
	if o.Cover {
		// reachability is judged without the lemmas (a false lemma is reported by
		// its own obligation and must not make the cover vacuous)
		for i, a := range vc.assumes[:o.NAssume] {
			if !vc.lemma[i] {
				q.Assumes = append(q.Assumes, a)
			}
		}
		q.Goal = o.Goal
		return q
	}
	q.Assumes = vc.assumes[:o.NAssume]
	q.Goal = o.Goal
	return q
}

func describeTrusted(vc *VC) []string {
	var out []string
	for k := range vc.trusted {
		out = append(out, k)
	}
	for k := range vc.notes {
		out = append(out, "note:"+k)
	}
	sort.Strings(out)
	return out
}

// verifyInitGlobals proves the global invariants of a package on the slice of
// its initializer that writes the variables they mention: a package-level
// variable starts zeroed, the initializer's stores to it (constant index /
// field paths, constant values) are replayed in order, and the invariant must
// hold afterwards.  Any other use of the variable inside the initializer makes
// the obligation fail (reported, not assumed).
func (p *Prog) verifyInitGlobals(fn *ssa.Function, fr *Frame, st *State) {
	vc := fr.vc
	key := funcKey(fn)
	for _, gi := range p.globalInvs {
		if fn.Pkg == nil || !gi.inPkg(fn.Pkg.Pkg) {
			continue
		}
		names := map[string]bool{}
		globalsIn(gi.Clause.Expr, names)
		cur := st.clone()
		var problems []string
		for n := range names {
			g, ok := fn.Pkg.Members[n].(*ssa.Global)
			if !ok {
				continue
			}
			gref := tInt(int64(p.globalRef(g)))
			et := g.Type().(*types.Pointer).Elem()
			// zero value
			seen := map[Kind]bool{}
			for _, k := range p.lay.of(et).Kinds {
				if !seen[k] {
					seen[k] = true
					hk := vc.heapKey(k)
					vc.set(cur, hk, tSto(vc.get(cur, hk), gref, zeroArr(k)))
				}
			}
			// replay the stores of the initializer
			for _, b := range fn.Blocks {
				for _, in := range b.Instrs {
					uses := false
					for _, op := range in.Operands(nil) {
						if *op == ssa.Value(g) {
							uses = true
						}
					}
					if !uses {
						continue
					}
					switch x := in.(type) {
					case *ssa.DebugRef, *ssa.UnOp:
					case *ssa.IndexAddr:
						idx, isConst := x.Index.(*ssa.Const)
						if !isConst || x.Referrers() == nil {
							problems = append(problems, "dynamic index: "+in.String())
							continue
						}
						arr := et.Underlying().(*types.Array)
						off := vc.elemOff("0", tInt(idx.Int64()), p.lay.size(arr.Elem()))
						for _, r := range *x.Referrers() {
							switch r := r.(type) {
							case *ssa.Store:
								c, isC := r.Val.(*ssa.Const)
								if r.Addr != ssa.Value(x) || !isC {
									problems = append(problems, "non-constant store: "+r.String())
									continue
								}
								v := fr.constVal(c)
								v.T = arr.Elem()
								vc.storeAt(cur, gref, off, v)
							case *ssa.DebugRef, *ssa.UnOp:
							default:
								problems = append(problems, "address escapes: "+r.String())
							}
						}
					case *ssa.Store:
						if call, isCall := x.Val.(*ssa.Call); isCall && x.Addr == ssa.Value(g) {
							// a freshly built error value (fmt.Errorf / errors.New) is non-nil
							if f, ok := call.Call.Value.(*ssa.Function); ok && (funcKey(f) == "fmt.Errorf" || funcKey(f) == "errors.New") {
								tid := vc.fresh("errtid", "Int")
								ref := vc.fresh("errref", "Int")
								vc.assumeRaw(tAnd(tLt("0", tid), tLt("0", ref)))
								vc.storeAt(cur, gref, "0", Val{T: et, S: []Term{tid, ref, "0"}})
								continue
							}
						}
						c, isC := x.Val.(*ssa.Const)
						if x.Addr != ssa.Value(g) || !isC || p.lay.size(et) > 8 {
							problems = append(problems, "unsupported store: "+in.String())
							continue
						}
						v := fr.constVal(c)
						v.T = et
						vc.storeAt(cur, gref, "0", v)
					default:
						problems = append(problems, "unsupported use: "+in.String())
					}
				}
			}
			bad := p.scanGlobalWrites(fn.Pkg, g)
			stt := "unsat"
			if len(bad) > 0 {
				stt = "sat"
			}
			vc.obls = append(vc.obls, &Obligation{Name: fmt.Sprintf("%s/global-invariant[%s]/no-other-store[%s]", key, gi.Clause.Label, n), Kind: "scan",
				Goal: tTrue, Func: key, Pos: p.pos(g.Pos()), Clause: "only the package initializer stores to " + n,
				Result: &SolverResult{Status: stt, Solver: "syntactic-scan", Output: strings.Join(bad, "\n")}})
		}
		name := fmt.Sprintf("%s/global-invariant[%s]", key, gi.Clause.Label)
		if len(problems) > 0 {
			vc.obls = append(vc.obls, &Obligation{Name: name, Kind: "ensures", Goal: tFalse, Func: key, Clause: gi.Clause.Text,
				Result: &SolverResult{Status: "unknown", Solver: "syntactic-scan", Output: strings.Join(problems, "\n")}})
			continue
		}
		env := fr.specEnv(cur, cur)
		vc.curPos = fn.Pos()
		vc.oblige(cur, name, "ensures", env.evalBool(gi.Clause.Expr), gi.Clause.Text)
	}
}

// protectedGlobals: refs of unexported package-level variables that a global
// invariant mentions and that pass the no-other-store scan.
func (p *Prog) protectedGlobals() []int {
	if p.protDone {
		return p.prot
	}
	p.protDone = true
	for _, gi := range p.globalInvs {
		names := map[string]bool{}
		globalsIn(gi.Clause.Expr, names)
		for _, sp := range p.ssa.AllPackages() {
			if !gi.inPkg(sp.Pkg) || !strings.HasPrefix(sp.Pkg.Path(), repoMod) {
				continue
			}
			for n := range names {
				g, ok := sp.Members[n].(*ssa.Global)
				if !ok || g.Object() == nil || g.Object().Exported() {
					continue
				}
				if len(p.scanGlobalWrites(sp, g)) == 0 {
					p.prot = append(p.prot, p.globalRef(g))
				}
			}
		}
	}
	sort.Ints(p.prot)
	return p.prot
}

// globalsIn lists the package-level variables a specification mentions.
func globalsIn(x SExpr, out map[string]bool) {
	switch x := x.(type) {
	case *SIdent:
		out[x.Name] = true
	case *SBin:
		globalsIn(x.L, out)
		globalsIn(x.R, out)
	case *SUn:
		globalsIn(x.X, out)
	case *SCall:
		for _, a := range x.Args {
			globalsIn(a, out)
		}
	case *SSel:
		globalsIn(x.X, out)
	case *SIndex:
		globalsIn(x.X, out)
		globalsIn(x.I, out)
	case *SSlice:
		globalsIn(x.X, out)
	case *SQuant:
		globalsIn(x.Body, out)
	case *SCond:
		globalsIn(x.C, out)
		globalsIn(x.A, out)
		globalsIn(x.B, out)
	}
}

// scanGlobalWrites returns the uses of package-level variable g outside the
// package initializer that are not plain reads (load, indexed/field load).
func (p *Prog) scanGlobalWrites(pkg *ssa.Package, g *ssa.Global) []string {
	var bad []string
	readOnly := func(v ssa.Value) bool {
		refs := v.Referrers()
		if refs == nil {
			return false
		}
		for _, r := range *refs {
			switch r := r.(type) {
			case *ssa.UnOp:
			case *ssa.DebugRef:
			default:
				_ = r
				return false
			}
		}
		return true
	}
	var visit func(fn *ssa.Function)
	visit = func(fn *ssa.Function) {
		for _, b := range fn.Blocks {
			for _, in := range b.Instrs {
				for _, op := range in.Operands(nil) {
					if *op != ssa.Value(g) {
						continue
					}
					ok := false
					switch x := in.(type) {
					case *ssa.UnOp:
						ok = true
					case *ssa.IndexAddr:
						ok = readOnly(x)
					case *ssa.FieldAddr:
						ok = readOnly(x)
					case *ssa.DebugRef:
						ok = true
					}
					if !ok {
						bad = append(bad, fmt.Sprintf("%s: %s at %s", funcKey(fn), in.String(), p.pos(in.Pos())))
					}
				}
			}
		}
		for _, a := range fn.AnonFuncs {
			visit(a)
		}
	}
	for _, m := range pkg.Members {
		switch m := m.(type) {
		case *ssa.Function:
			if m.Name() == "init" {
				continue
			}
			visit(m)
		case *ssa.Type:
			if nt, ok := m.Type().(*types.Named); ok {
				for i := 0; i < nt.NumMethods(); i++ {
					if f := p.ssa.FuncValue(nt.Method(i)); f != nil {
						visit(f)
					}
				}
			}
		}
	}
	sort.Strings(bad)
	return bad
}

var _ = strings.Join
