package main

// Top-level verification of one function against its contract.

import (
	"fmt"
	"go/types"
	"sort"
	"strings"

	"golang.org/x/tools/go/ssa"
)

type FuncResult struct {
	Key     string
	VC      *VC
	Err     string // non-empty: function outside the subset / contract error
	Returns int
}

// verifyFunc generates the obligations of fn under contract ct.
func (p *Prog) verifyFunc(fn *ssa.Function, ct *Contract) (res *FuncResult) {
	key := funcKey(fn)
	vc := newVC(p, key)
	res = &FuncResult{Key: key, VC: vc}
	defer func() {
		if r := recover(); r != nil {
			if u, ok := r.(unsupported); ok {
				res.Err = u.msg
				return
			}
			panic(r)
		}
	}()
	fr := vc.newFrame(fn, 0)
	fr.top = true
	fr.contract = ct
	st := &State{pc: tTrue, v: map[string]Term{}}
	// initial heap symbols
	for _, k := range allKinds {
		vc.get(st, vc.heapKey(k))
	}
	vc.get(st, vc.allocKey())
	vc.assumeRaw(tLt("0", vc.get(st, "alloc")))
	// parameters
	fr.specVars = map[string]Val{}
	for i, prm := range fn.Params {
		v := vc.freshVal("p."+prm.Name(), prm.Type())
		v.T = prm.Type()
		vc.assumeRaw(vc.wellTyped(st, v))
		// machine range of integer parameters
		if intBits(prm.Type()) > 0 {
			vc.assumeRaw(rangeOf(prm.Type(), v.S[0]))
		}
		fr.params = append(fr.params, v)
		if prm.Name() != "" && prm.Name() != "_" {
			fr.specVars[prm.Name()] = v
		}
		fr.specVars[fmt.Sprintf("$%d", i)] = v
		// receivers are non-nil
		if i == 0 && fn.Signature.Recv() != nil {
			if _, ok := prm.Type().Underlying().(*types.Pointer); ok {
				vc.assumeRaw(tNot(tEq(v.S[0], "0")))
			}
		}
	}
	for _, fv := range fn.FreeVars {
		v := vc.freshVal("fv."+fv.Name(), fv.Type())
		vc.assumeRaw(vc.wellTyped(st, v))
		fr.freeVars = append(fr.freeVars, v)
		// captured variable x is visible by name through its cell
		if pt, ok := fv.Type().Underlying().(*types.Pointer); ok {
			_ = pt
			fr.specVars["&"+fv.Name()] = v
		}
	}
	// requires
	pre := &SEnv{vc: vc, fr: fr, fn: fn, cur: st, old: st, vars: map[string]Val{}, ct: ct, assumeMode: true}
	for k, v := range fr.specVars {
		pre.vars[k] = v
	}
	fr.entry = st
	for _, rq := range ct.Requires {
		vc.assumeRaw(pre.evalBool(rq.Expr))
	}
	// cover: the precondition is satisfiable
	vc.obls = append(vc.obls, &Obligation{Name: key + "/cover[entry]", Kind: "cover", Goal: tFalse, NAssume: len(vc.assumes), Func: key, Cover: true, Pos: p.pos(fn.Pos()), Clause: "requires and typing assumptions are satisfiable"})

	exits := fr.run(st)
	res.Returns = len(exits)
	// order return sites by source position
	sort.SliceStable(exits, func(i, j int) bool {
		pi, pj := exits[i].ret.Pos(), exits[j].ret.Pos()
		if pi != pj {
			return pi < pj
		}
		return exits[i].ret.Block().Index < exits[j].ret.Block().Index
	})
	var frameTs []modTarget
	if ct.HasMod {
		fenv := fr.specEnv(fr.entry, fr.entry)
		frameTs = fenv.modTargets(ct.Modifies)
	}
	for i, ex := range exits {
		site := fmt.Sprintf("@return[%d]", i+1)
		if len(exits) == 1 {
			site = ""
		}
		vc.curPos = ex.ret.Pos()
		post := fr.specEnv(ex.st, fr.entry)
		post.block = ex.ret.Block()
		post.results = ex.results
		for _, en := range ct.Ensures {
			name := fmt.Sprintf("%s/ensures[%s]%s", key, en.Label, site)
			vc.oblige(ex.st, name, "ensures", post.evalBool(en.Expr), en.Text)
		}
		if ct.HasMod {
			for _, g := range vc.frameGoal(fr.entry, ex.st, frameTs) {
				name := fmt.Sprintf("%s/modifies[%s]%s", key, g.name, site)
				vc.oblige(ex.st, name, "modifies", g.goal, "modifies clause (frame)")
			}
		}
		// cover: this return is reachable
		vc.obls = append(vc.obls, &Obligation{Name: fmt.Sprintf("%s/cover[return%d]", key, i+1), Kind: "cover", Goal: tNot(ex.st.pc), NAssume: len(vc.assumes), Func: key, Cover: true, Pos: p.pos(ex.ret.Pos()), Clause: "return site reachable"})
	}
	// unused call-site assertions are contract errors (vacuity)
	for _, ca := range ct.CallAsrt {
		if ca.Clause.Line > 0 {
			vc.errs = append(vc.errs, fmt.Sprintf("at-call assertion [%s] on %s#%d matched no call", ca.Clause.Label, ca.Callee, ca.Ord))
		} else {
			ca.Clause.Line = -ca.Clause.Line
		}
	}
	for k := range ct.Loops {
		found := false
		for _, li := range fr.loops {
			if li.ord == k {
				found = true
			}
		}
		if !found {
			vc.errs = append(vc.errs, fmt.Sprintf("loop %d has clauses but the function has %d loops", k, len(fr.loops)))
		}
	}
	return res
}

func (vc *VC) query(o *Obligation) *Query {
	q := &Query{Name: o.Name}
	q.Decls = append(q.Decls, vc.literalDecls()...)
	q.Decls = append(q.Decls, vc.decls...)
	q.Assumes = vc.assumes[:o.NAssume]
	q.Goal = o.Goal
	return q
}

func describeTrusted(vc *VC) []string {
	var out []string
	for k := range vc.trusted {
		out = append(out, k)
	}
	for k := range vc.notes {
		out = append(out, "note:"+k)
	}
	sort.Strings(out)
	return out
}

var _ = strings.Join
