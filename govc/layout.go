package main

// Flattened slot layout of Go types (memory model of DESIGN §3.3).

import (
	"fmt"
	"go/types"
)

type Kind byte

const (
	KI Kind = 'I' // Int: integers, refs, offsets, type ids, map refs, func ids
	KB Kind = 'B' // Bool (also: mutex held flag)
	KS Kind = 'S' // Str
	KF Kind = 'F' // Flt (uninterpreted)
	KT Kind = 'T' // Tim (time.Time)
	KM Kind = 'M' // mutex held flag (ghost lock state; not forgotten at unknown calls)
)

func (k Kind) Sort() string {
	switch k {
	case KI:
		return "Int"
	case KB:
		return "Bool"
	case KS:
		return "Str"
	case KF:
		return "Flt"
	case KT:
		return "Tim"
	case KM:
		return "Bool"
	}
	panic("kind")
}

func (k Kind) Heap() string { return "H" + string(k) }

var allKinds = []Kind{KI, KB, KS, KF, KT, KM}

// Val is a symbolic Go value: its static type and one term per slot.
type Val struct {
	T   types.Type
	S   []Term
	Old *State // spec values only: dereference through this value in that (old) state
}

func (v Val) String() string { return fmt.Sprintf("%v%v", v.T, v.S) }

type Layout struct {
	Kinds []Kind
}

type layouter struct {
	cache map[types.Type]*Layout
}

func newLayouter() *layouter { return &layouter{cache: map[types.Type]*Layout{}} }

func isNamed(t types.Type, pkg, name string) bool {
	n, ok := t.(*types.Named)
	if !ok {
		if a, ok2 := t.(*types.Alias); ok2 {
			return isNamed(types.Unalias(a), pkg, name)
		}
		return false
	}
	o := n.Obj()
	return o != nil && o.Pkg() != nil && o.Pkg().Path() == pkg && o.Name() == name
}

const maxArraySlots = 4096

func (l *layouter) of(t types.Type) *Layout {
	t = types.Unalias(t)
	if r, ok := l.cache[t]; ok {
		return r
	}
	r := l.compute(t)
	l.cache[t] = r
	return r
}

func (l *layouter) compute(t types.Type) *Layout {
	if isNamed(t, "time", "Time") {
		return &Layout{[]Kind{KT}}
	}
	if isNamed(t, "sync", "Mutex") || isNamed(t, "sync", "RWMutex") {
		return &Layout{[]Kind{KM}}
	}
	switch u := t.Underlying().(type) {
	case *types.Basic:
		switch {
		case u.Info()&types.IsBoolean != 0:
			return &Layout{[]Kind{KB}}
		case u.Info()&types.IsInteger != 0:
			return &Layout{[]Kind{KI}}
		case u.Info()&types.IsFloat != 0, u.Info()&types.IsComplex != 0:
			return &Layout{[]Kind{KF}}
		case u.Info()&types.IsString != 0:
			return &Layout{[]Kind{KS}}
		case u.Kind() == types.UnsafePointer:
			return &Layout{[]Kind{KI, KI}}
		case u.Kind() == types.UntypedNil:
			return &Layout{[]Kind{KI, KI, KI}}
		case u.Kind() == types.Invalid:
			return &Layout{nil}
		}
	case *types.Pointer:
		return &Layout{[]Kind{KI, KI}}
	case *types.Slice:
		return &Layout{[]Kind{KI, KI, KI, KI}}
	case *types.Map, *types.Chan:
		return &Layout{[]Kind{KI}}
	case *types.Signature:
		return &Layout{[]Kind{KI, KI}}
	case *types.Interface:
		return &Layout{[]Kind{KI, KI, KI}}
	case *types.TypeParam:
		// generic bodies: treated like an interface value
		return &Layout{[]Kind{KI, KI, KI}}
	case *types.Struct:
		var ks []Kind
		for i := 0; i < u.NumFields(); i++ {
			ks = append(ks, l.of(u.Field(i).Type()).Kinds...)
		}
		if len(ks) == 0 {
			ks = []Kind{KB} // zero-size structs occupy one dummy slot so addresses stay distinct
		}
		return &Layout{ks}
	case *types.Array:
		el := l.of(u.Elem())
		n := int(u.Len())
		var ks []Kind
		if n*len(el.Kinds) > maxArraySlots {
			n = maxArraySlots / len(el.Kinds)
		}
		for i := 0; i < n; i++ {
			ks = append(ks, el.Kinds...)
		}
		return &Layout{ks}
	case *types.Tuple:
		var ks []Kind
		for i := 0; i < u.Len(); i++ {
			ks = append(ks, l.of(u.At(i).Type()).Kinds...)
		}
		return &Layout{ks}
	}
	panic(fmt.Sprintf("layout: unsupported type %v (%T)", t, t.Underlying()))
}

func (l *layouter) size(t types.Type) int { return len(l.of(t).Kinds) }

// fieldOffset returns the slot offset of field i of struct type t.
func (l *layouter) fieldOffset(st *types.Struct, i int) int {
	off := 0
	for j := 0; j < i; j++ {
		off += l.size(st.Field(j).Type())
	}
	return off
}

// tupleOffset returns the slot offset of component i of a tuple.
func (l *layouter) tupleOffset(tp *types.Tuple, i int) int {
	off := 0
	for j := 0; j < i; j++ {
		off += l.size(tp.At(j).Type())
	}
	return off
}

func isUnsigned(t types.Type) (bool, int) {
	b, ok := t.Underlying().(*types.Basic)
	if !ok {
		return false, 0
	}
	switch b.Kind() {
	case types.Uint8:
		return true, 8
	case types.Uint16:
		return true, 16
	case types.Uint32:
		return true, 32
	case types.Uint64, types.Uint, types.Uintptr:
		return true, 64
	}
	return false, 0
}

func intBits(t types.Type) int {
	b, ok := t.Underlying().(*types.Basic)
	if !ok {
		return 0
	}
	switch b.Kind() {
	case types.Int8, types.Uint8:
		return 8
	case types.Int16, types.Uint16:
		return 16
	case types.Int32, types.Uint32:
		return 32
	case types.Int, types.Int64, types.Uint, types.Uint64, types.Uintptr:
		return 64
	}
	return 0
}

func pow2(n int) string {
	// returns decimal string of 2^n for n in {7,8,15,16,31,32,63,64}
	switch n {
	case 7:
		return "128"
	case 8:
		return "256"
	case 15:
		return "32768"
	case 16:
		return "65536"
	case 31:
		return "2147483648"
	case 32:
		return "4294967296"
	case 63:
		return "9223372036854775808"
	case 64:
		return "18446744073709551616"
	}
	panic("pow2")
}

// rangeOf returns the SMT constraint that v is in the machine range of t.
func rangeOf(t types.Type, v Term) Term {
	bits := intBits(t)
	if bits == 0 {
		return tTrue
	}
	if u, _ := isUnsigned(t); u {
		return tAnd(tLe("0", v), tLt(v, pow2(bits)))
	}
	return tAnd(tLe("(- "+pow2(bits-1)+")", v), tLt(v, pow2(bits-1)))
}
