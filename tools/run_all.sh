#!/bin/sh
# run every claimed check (quick tier) on the current tree; used before committing evidence
cd "$(dirname "$0")/.."
rc=0
for p in $(python3 -c "import json;print(' '.join(c['property_id'] for c in json.load(open('MANIFEST.json'))['checks']))"); do
  ./check $p --tier quick | tail -3 || rc=1
done
python3-vt - <<'PY'
import json, jsonschema, glob
sch=json.load(open('/root/.vp/EVIDENCE.schema.json'))
man=json.load(open('/verif/MANIFEST.json'))
for c in man['checks']:
    e=json.load(open(c['evidence_file'])); jsonschema.validate(e, sch)
    ok = e['level']==c['level_claimed']['category']
    print(c['property_id'], e['level'], e['coverage']['obligations'], e['coverage']['discharged'], 'OK' if ok else 'LEVEL-MISMATCH')
PY
exit $rc
