#!/usr/bin/env python3
"""Render seeded/RESULTS.txt + meta.json of every seeded change as the markdown
table of DESIGN.md I.10 (printed on stdout)."""
import json, os, re, glob
V = os.path.dirname(os.path.dirname(os.path.abspath(__file__)))
res = {}
for l in open(f"{V}/seeded/RESULTS.txt"):
    m = re.match(r"(\S+) check=(\S+) rc=(\d) violations=(\d+) first=\[(.*)\]", l.strip())
    if not m: continue
    name = m.group(1).replace("seeded/", "")
    res.setdefault(name, []).append((m.group(2), m.group(3), m.group(5)))
def short(o):
    o = re.sub(r"^VIOLATION property=\S+ replay=\S+ ", "", o)
    o = re.sub(r" status=.*", "", o)
    o = re.sub(r"^\(\*?([a-z]+\.)?", "(", o)
    return o[:110]
rows = {"r1": [], "r2": [], "r3": [], "r4": [], "r5": [], "benign": []}
for name in sorted(res):
    d = f"{V}/seeded/{name}"
    try: meta = json.load(open(d + "/meta.json"))
    except Exception: meta = {}
    fn = ", ".join(meta.get("functions", []))[:70]
    kind = meta.get("kind", "")
    caught = [(c, o) for c, rc, o in res[name] if rc == "1"]
    grp = "benign" if name.startswith("benign/") else ("r2" if "-r2-" in name else ("r3" if "-r3-" in name else ("r4" if "-r4-" in name else ("r5" if "-r5-" in name else "r1"))))
    if grp == "benign":
        rows[grp].append(f"| {name.replace('benign/','')} | {kind[:40]} | {fn} | {'ALARM: ' + short(caught[0][1]) if caught else 'quiet'} |")
    else:
        rows[grp].append(f"| {name} | {fn} | {('yes (' + caught[0][0] + '): ' + short(caught[0][1])) if caught else '**no**'} |")
nb = sum('ALARM' in r for r in rows['benign'])
titles = {"r1": "Round 1 (functions named by the property)", "r2": "Round 2 (other functions than round 1)", "r3": "Round 3 (other functions than rounds 1-2)", "r4": "Round 4 (other functions than rounds 1-3)", "r5": "Round 5 (one per property, other functions than rounds 1-4; five properties yielded none)"}
for g in ("r1", "r2", "r3", "r4", "r5"):
    if not rows[g]: continue
    n = sum('**no**' not in r for r in rows[g])
    print(f"\n{titles[g]}: {n} of {len(rows[g])} detected.\n")
    print("| change | function(s) changed | detected by (check): first failing obligation |\n|---|---|---|")
    print("\n".join(rows[g]))
print(f"\nBehaviour-preserving refactorings: {nb} of {len(rows['benign'])} raise an alarm.\n")
print("| change | kind | function(s) changed | result |\n|---|---|---|---|")
print("\n".join(rows['benign']))
