#!/bin/sh
# stability.sh [seeds...] : run every claimed quick check under several solver seeds
# and report obligations whose status changes (unstable proofs are future false alarms)
cd "$(dirname "$0")/.."
seeds="${*:-1 7 42}"
mkdir -p /tmp/verif_stab
for p in $(python3 -c "import json;print(' '.join(c['property_id'] for c in json.load(open('MANIFEST.json'))['checks']))"); do
  cp evidence/$p.json /tmp/verif_stab/$p.keep
  for s in $seeds; do
    VERIF_SEED=$s ./check $p --tier quick > /tmp/verif_stab/$p.$s.out 2>&1
    echo "$p seed=$s rc=$? $(tail -1 /tmp/verif_stab/$p.$s.out | cut -c1-120)"
    cp evidence/$p.json /tmp/verif_stab/$p.$s.json
  done
  cp /tmp/verif_stab/$p.keep evidence/$p.json
done
python3 - $seeds <<'PY'
import json,sys,glob,collections
seeds=sys.argv[1:]
bad=0
for p in sorted(set(f.split('/')[-1].split('.')[0] for f in glob.glob('/tmp/verif_stab/C*.json'))):
    st=collections.defaultdict(dict); ms=collections.defaultdict(int)
    for s in seeds:
        try: e=json.load(open(f'/tmp/verif_stab/{p}.{s}.json'))
        except Exception: continue
        for o in e['coverage']['obligation_list']:
            st[o['name']][s]=o['status']; ms[o['name']]=max(ms[o['name']],o['ms'])
    for n,d in st.items():
        if len(set(d.values()))>1:
            bad+=1; print('UNSTABLE',p,n,d)
    slow=[(m,n) for n,m in ms.items() if m>5000]
    for m,n in sorted(slow,reverse=True)[:5]:
        print('SLOW',p,m,'ms',n)
print('unstable obligations:',bad)
PY
rm -rf /tmp/verif_stab
