#!/usr/bin/env python3
"""Generate /verif/MANIFEST.json from contracts/props.json (claimed properties)
and contracts/not_applicable.json (unclaimed ones, with reasons)."""
import json, subprocess, os
V = os.path.dirname(os.path.dirname(os.path.abspath(__file__)))
props = json.load(open(f"{V}/contracts/props.json"))
na = json.load(open(f"{V}/contracts/not_applicable.json"))
allp = [json.loads(l)["id"] for l in open(f"{V}/properties.jsonl")]
hooks = subprocess.run(["git", "-C", "/repo", "log", "--format=%h %s"], capture_output=True, text=True).stdout.splitlines()
hook_commits = [l.split()[0] for l in hooks if l.split(" ", 1)[1].startswith("verif:")]
checks = []
for pid in allp:
    if pid not in props:
        continue
    p = props[pid]
    cat = p.get("level", "proof")
    checks.append({
        "property_id": pid,
        "quick_cmd": f"./check {pid} --tier quick",
        "thorough_cmd": f"./check {pid} --tier thorough",
        "evidence_file": f"/verif/evidence/{pid}.json",
        "replay_cmd_template": f"./check {pid} --replay {{path}}",
        "engine": "govc",
        "level_claimed": {"category": cat, "text": p["claim"], "design_ref": p.get("design_ref", f"DESIGN.md §5 {pid}")},
        "level_note": p["trusted"],
        "technique": "contract-based deductive verification: contracts (//@ comments, build tag verif) on the real functions; VCs generated from go/ssa of the current tree by govc; each obligation discharged by z3 / z3-new / cvc5",
    })
nas = []
for pid in allp:
    if pid in props:
        continue
    nas.append({"property_id": pid, "reason": na.get(pid, "no contract within reach yet; see DESIGN.md")})
m = {
    "version": 1,
    "setup_cmd": "cd /verif/govc && GOFLAGS=-mod=vendor GOPROXY=off GOTOOLCHAIN=local go build -o ../bin/govc .",
    "hooks": {
        "guard": "verif",
        "enable": "govc loads /repo with BuildFlags -tags=verif. The guarded files (pkg/**/zz_verif_contracts.go) contain only comments (//@ contract lines), so the compiled code is identical with the tag on or off.",
        "baseline_off_cmd": "for m in $(cat /w/out/gomods.txt); do MF=$(cd /repo/$m && . /w/out/goenv.sh && gomodflag); (cd /repo/$m && go test $MF -json -vet=off -count=1 -timeout 25m ./...); done",
        "source_commits": hook_commits,
        "add_only": True,
    },
    "engines": [{
        "name": "govc", "path": "/verif/govc", "serves_properties": [c["property_id"] for c in checks],
        "kind_free_text": "contract-based deductive verifier for Go written for this task: go/ssa (naive form) symbolic execution of the real functions of /repo, loops cut at invariants, modular call contracts, one SMT-LIB query per obligation, raced on z3 4.8.12 / z3-new 5.1.0 / cvc5 1.0",
    }],
    "checks": checks,
    "not_applicable": nas,
    "notes": "Each check regenerates its verification conditions from /repo's current working tree. known_findings.txt lists recorded findings and fixes; obligations.lock.json lists the obligations that discharge on the pinned tree (vacuity / missing-obligation guard).",
}
json.dump(m, open(f"{V}/MANIFEST.json", "w"), indent=1)
print("checks:", [c["property_id"] for c in checks], "n/a:", len(nas))
