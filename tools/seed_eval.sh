#!/bin/sh
# seed_eval.sh <dir-with-patch.diff> <prop> [more props...]
# applies the seeded change to /repo's working tree, runs the quick check of each
# property, reverts.  Evidence files are saved and restored.  Prints one line per check.
d=$1; shift
export GOFLAGS=-mod=mod GOPROXY=off GOSUMDB=off GOTOOLCHAIN=local
cd /repo || exit 2
if [ -n "$(git status --porcelain)" ]; then echo "repo not clean"; exit 2; fi
git apply "$d/patch.diff" || { echo "APPLY-FAILED $d"; exit 2; }
for p in "$@"; do
  cp /verif/evidence/$p.json /tmp/seed_ev_$p.bak 2>/dev/null
  out=$(/verif/check $p --tier quick 2>&1); rc=$?
  v=$(echo "$out" | grep -c '^VIOLATION')
  first=$(echo "$out" | grep '^VIOLATION' | head -1 | sed 's/.*obligation=//' | cut -c1-160)
  echo "$(basename $(dirname $d))/$(basename $d) check=$p rc=$rc violations=$v first=[$first]"
  cp /tmp/seed_ev_$p.bak /verif/evidence/$p.json 2>/dev/null; rm -f /tmp/seed_ev_$p.bak
done
git checkout -- . && git clean -fdq
