#!/bin/sh
# seed_all.sh : evaluate every seeded change (property-breaking and benign) with the check of
# its own property and write seeded/RESULTS.txt
cd "$(dirname "$0")/.."
out=seeded/RESULTS.txt
: > $out.tmp
for d in seeded/C??-? seeded/C??-r2-? seeded/C??-r3-? seeded/C??-r4-? seeded/C??-r5-? seeded/benign/C??-?; do
  [ -f $d/patch.diff ] || continue
  b=$(basename $d); p=$(echo $b | cut -c1-3)
  extra=""
  case $b in
    C06-r2-1) extra="C04";; C07-2|C07-r2-2) extra="";;
  esac
  tools/seed_eval.sh /verif/$d $p $extra 2>&1 | grep "check=" >> $out.tmp
done
mv $out.tmp $out
echo "property-breaking detected: $(grep -v benign $out | grep -c 'rc=1') of $(grep -v benign $out | grep -c 'check=')"
echo "benign flagged:             $(grep benign $out | grep -c 'rc=1') of $(grep -c benign $out)"
