#!/bin/sh
# regenerate obligations.lock.json for every claimed property from the current (pinned) tree
cd "$(dirname "$0")/.."
for p in $(python3 -c "import json;print(' '.join(c['property_id'] for c in json.load(open('MANIFEST.json'))['checks']))"); do
  bin/govc check -prop $p -update-lock | tail -1
done
